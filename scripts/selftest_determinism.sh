#!/bin/bash
# Proves that one seed is one execution: every property's runs are executed in two separate
# process trees with different worker counts (different per-worker histories) and the per-run
# event-log hashes are diffed. usage: selftest_determinism.sh [runs-per-property] [props...]
set -uo pipefail
cd /verif
N="${1:-2000}"; shift || true
PROPS=("$@"); [ ${#PROPS[@]} -eq 0 ] && PROPS=(C01 C02 C03 C04 C05 C06 C07 C08 C09 C10 C12 C13 C14 C15 C16 C17 C18 C19)
A=$(scripts/build.sh asan) || exit 2
T=$(scripts/build.sh tsan) || exit 2
mkdir -p .build/run
FAIL=0
for P in "${PROPS[@]}"; do
	R=$N; [ "$P" = C17 ] && R=$((N/10)); [ "$P" = C18 ] && R=$((N/2))
	for BIN in "$A" $([ "$P" = C18 ] && echo "$T"); do
		# both tiers: the thorough generators draw from larger spaces (this is where a history-dependent
		# RSA key generation once hid)
		for TIER in quick thorough; do
			RT=$R; [ $TIER = thorough ] && RT=$((R/3))
			"$BIN" check --property "$P" --tier $TIER --runs "$RT" --workers 16 --hashes --seed "${VERIF_SEED:-1}" 2>/dev/null | grep '^HASH' > .build/run/det-a.txt
			"$BIN" check --property "$P" --tier $TIER --runs "$RT" --workers 5 --hashes --seed "${VERIF_SEED:-1}" 2>/dev/null | grep '^HASH' > .build/run/det-b.txt
			na=$(wc -l < .build/run/det-a.txt); d=$(diff .build/run/det-a.txt .build/run/det-b.txt | grep -c '^<')
			echo "$P $(basename $(dirname $BIN)) $TIER: $na runs hashed twice (16 vs 5 workers), $d differ"
			[ "$d" -ne 0 ] || [ "$na" -ne "$RT" ] && FAIL=1
		done
	done
done
rm -f .build/run/det-a.txt .build/run/det-b.txt
[ $FAIL -eq 0 ] && echo "DETERMINISM OK" || { echo "DETERMINISM FAILED"; exit 1; }
