#!/usr/bin/env python3
"""Writes /verif/MANIFEST.json from the table below and validates it against the schema.
A property is claimed when it appears in CLAIMED and jwtsim lists a check for it; every other
property of properties.jsonl goes to not_applicable with its reason."""
import json, subprocess, sys, os

ROOT = "/verif"

CLAIMED = {
    # id: (level, design_ref, technique, level text, level note)
    "C04": ("exploration", "DESIGN.md 4/C04",
            "deterministic simulation: simulated clock + seeded configuration histories vs. a claims reference model",
            "Seeded search over histories of claim_set/claim_del/time_leeway interleaved with clock jumps; verifies are scheduled exactly at the exp/nbf boundary seconds (both sides), with every JSON type in place of each claim; accept <=> model for pristine tokens. Sampling, not proof.",
            "Trusts the claims model written from the statement, the reference token builder (own base64url, OpenSSL HMAC) and jansson for value representation."),
}

W = "deterministic simulation: multi-party world (key owners, issuers, verifiers on both providers) with an adversarial in-memory transport, a simulated clock that also steps back, and injected allocation failures inside verify/generate/key import (soundness monitors stay in force under them); seeded fault/schedule search; monitors as implications against reference oracles"
WN = 'Trusts OpenSSL EVP (called directly on simulator-generated ground-truth keys) as the signature oracle, the reference base64url/token reader, and jansson for JSON values. Sampling over seeds, not proof.'
CLAIMED.update({
    "C01": ("exploration", "DESIGN.md 4/C01", W + "; every eighth run interleaves caller threads under the seeded scheduler (a forger verifying its own header and payload under the MAC of the token another thread is verifying)", "Every delivery - pristine, damaged, spliced, re-signed with attacker-computable keys, re-framed, misrouted - to a verifier holding a key is judged: accepted => the third segment is a valid signature under the verifier's ground-truth key and the header's algorithm (lenient reference reading), on both providers.", WN),
    "C02": ("exploration", "DESIGN.md 4/C02", W + "; stratified over explicit alg x key kind x route", "setkey admission table, pin (accepted/emitted alg == pinned alg), key family, for setkey and callback-selected pairs, on checkers and builders; header alg variants incl. case variants, unknown, missing, non-string; attacker-computable HMAC keys.", WN),
    "C03": ("exploration", "DESIGN.md 4/C03", W, "Unsigned-token rules on checkers (key by setkey or callback => never accept empty signature / alg none; no key => only alg 'none' with empty third segment) and builders (key by setkey or callback => never unsigned).", WN),
    "C05": ("exploration", "DESIGN.md 4/C05", W + "; signer randomness from the simulated entropy stream; every eighth run interleaves caller threads under the seeded scheduler and judges their tokens and verdicts by the same reference", "Issue -> pristine delivery -> verify across all (issuer provider, verifier provider) pairs and key types; must accept; header/claims read in the checker callback json_equal to builder input plus library members; short ECDSA r/s counted by probes.", WN),
    "C06": ("exploration", "DESIGN.md 4/C06 (weak fit)", W + "; garbage and near-valid deliveries under ASan/UBSan with live-block accounting and allocator guard bytes; every fourth run a claim-policy history (leeways, clocks and exp/nbf at 64-bit extremes) judged for crashes, UB and leaks", "Every delivery incl. pure garbage up to 64 KiB must return, produce no sanitizer report, leak no simulator-allocator block, and be rejected when the lenient reference finds it malformed. No coverage guidance; a fuzzer would be the stronger tool.", WN),
    "C08": ("exploration", "DESIGN.md 4/C08 (weak fit)", W + "; monitor on every key-distribution event", "Every well-formed JWK published in any run (all types/sizes, private and public, optional members, zero-padded / minimal integers, foreign and unknown members) must import to exactly the ground-truth key and metadata.", WN),
    "C09": ("exploration", "DESIGN.md 4/C09 (weak fit)", W + "; oct lengths 0-160 and weak RSA/EC cells stratified by run index", "No generate or verify event of any run succeeds below the key-strength floor; keys at the floor round-trip.", WN),
    "C12": ("exploration", "DESIGN.md 4/C12", W + "; each comparable delivery re-judged under the other provider; deterministic algs generated under both; every eighth run interleaves caller threads (tokens of deterministic algorithms must not depend on the interleaving); every eighth run is a provider-switch history", "Verdict agreement between OpenSSL and GnuTLS for pristine and not-validly-signed tokens (provenance-classified), byte-identical HS*/RS*/EdDSA tokens, keys loaded under one provider used under the other.", WN),
    "C14": ("exploration", "DESIGN.md 4/C14 (weak fit)", "deterministic simulation: cross-cutting monitor over the event streams of the other profiles", "return value <=> error flag <=> non-empty message after every verify/generate of fault-free runs of the world and claims profiles.", "Only failure causes the simulated worlds reach are covered; the evidence lists them."),
})

H = "deterministic simulation: seeded operation histories on long-lived objects vs. executable reference models, with the simulated clock and allocator"
CLAIMED.update({
    "C07": ("exploration", "DESIGN.md 4/C07", "deterministic simulation: JWKS documents damaged in flight, read through simulated streams (chunking, short reads, EOF/EIO at any byte) and torn scratch files; model on the bytes that reached the parser; ASan/UBSan + live-block accounting + LeakSanitizer batches", "Every entry point (jwks_load, _strn, jwks_create*, _fromfp, _fromfile) with valid keys of every kty whose members are structurally damaged, byte damage, non-JSON and non-object JSON; item count / order / error-or-usable dichotomy checked against the delivered bytes.", "Trusts jansson's json_loadb on the delivered bytes for 'is JSON'; usability is judged through the public accessors only."),
    "C10": ("exploration", "DESIGN.md 4/C10", H + "; callbacks run at arbitrary simulated instants; every third run a multi-party world run whose every generated token (all key types, sizes, algorithms, both providers) is read by the strict base64url reader", "Histories of header/claim set/del, enable_iat, time_offset, setkey (incl. public-only and too-short keys), setcb programs that edit the per-token object or inject keys, clock moves and generates; every token decoded by the strict reference reader and compared with a builder model; builder snapshots before/after generate.", "Trusts the builder model written from the statement and OpenSSL for signature validity."),
    "C13": ("exploration", "DESIGN.md 4/C13", H + "; fresh-twin oracle (incl. a callback that picks keys from a ring, the twin loading its ring afresh); violations that need earlier runs of the same process are replayed with that history", "After every call on a long-lived checker or builder a freshly created identically configured twin gets the same call at the same simulated instant; verdicts (and deterministic tokens) must be equal, configuration must not drift; a quarter of the runs add single allocation faults.", "Twin oracle: a defect that affects fresh and reused objects alike is invisible here (other checks cover it)."),
    "C15": ("exploration", "DESIGN.md 4/C15", H, "Set/get/del histories of INT/STR/BOOL/JSON with and without replace on builder headers/claims and on the jwt_t inside generate and verify callbacks; return codes, values and the whole-object snapshot compared with a typed-map model after every step; single allocation faults in a quarter of the runs.", "Model stores values as jansson trees; don't-care cells listed in DESIGN."),
    "C16": ("exploration", "DESIGN.md 4/C16", H + "; loads through faulty streams and torn files; LeakSanitizer batches", "Histories over two keyrings of loads, get, find_bykid, count, free at every position incl. out of range and SIZE_MAX, free_bad, free_all, error clear, recreate; both rings compared with a list model after every step; ASan for use-after-free/double free, live-block and LSan accounting for leaks.", "Generated keys carry a marker member telling the model whether the element is definitely good or definitely bad."),
    "C17": ("fault_enumeration", "DESIGN.md 4/C17", "deterministic simulation with fault injection: for each sampled scenario every allocator request index fails once (exhaustive sweep per scenario), compared op by op with the fault-free run", "Exhaustive over the allocation index per scenario (thorough adds 'every request from k on'); scenarios (loads of every key type through every entry point, keyring removals, builder/checker configuration, typed values, callbacks, generate, verify; both providers) are sampled. Same result or reported failure; never an abort, a wrong accept or an altered token.", "Two jansson 2.14 dependency defects (lexer and dumper drop bytes when a buffer growth fails) are listed as known findings and recognised only when jansson alone reproduces them; leaks under OOM are counted, not flagged."),
    "C18": ("exploration", "DESIGN.md 4/C18", "deterministic simulation: real caller threads parked and released one at a time by a seeded scheduler at every allocator request and op boundary; same seeds under ASan/UBSan and under ThreadSanitizer with the scheduler handoffs excluded from happens-before", "2-4 threads with own builders/checkers sharing one keyring of every key type on either provider; per-op results equal the sequential execution (verdicts always, tokens for deterministic algorithms); ThreadSanitizer reports with a library frame; ASan/UBSan on the same seeds. Sampling of interleavings (hash of the choice sequence counted), not enumeration.", "Preemption only at allocator requests and op boundaries; races inside uninstrumented OpenSSL/GnuTLS/jansson are invisible; a TSan report without a libjwt frame is treated as a harness error."),
    "C19": ("exploration", "DESIGN.md 4/C19", H + "; callback-free twin oracle under the simulated clock", "Callback programs of header/claim set, replace, delete, delete-all biased to the claim the token fails on x claim-check configurations x tokens failing exactly one check at the simulated instant; verdict with the callback must equal the verdict without; non-zero return must fail; callback-selected inadmissible key/alg pairs must fail.", "Programs are sequences of the public jwt_header_*/jwt_claim_* calls only."),
})

NA_REASONS = {
    "C11": "Pure function of one byte string (base64url codec): no schedule, clock, fault or history is involved and the property's own quantifier is exhaustive enumeration, which deterministic simulation does not do; see DESIGN.md section 7.",
    "C20": "The CLI tools are separate executables whose behaviour is a function of argv, stdin and key files; they run outside the simulator and have no schedule, timer, retry or fault surface; driving them with generated arguments would be black-box CLI testing, a different technique; see DESIGN.md section 7.",
}
NOT_YET = "check not built yet in this session (planned per DESIGN.md; listed here only until its profile lands)"


def main():
    props = [json.loads(l) for l in open(f"{ROOT}/properties.jsonl")]
    have = set()
    try:
        out = subprocess.run([f"{ROOT}/.build/asan/jwtsim", "list"], capture_output=True, text=True).stdout.split()
        have = set(out)
    except Exception:
        pass
    have.add("C18") if os.path.exists(f"{ROOT}/scripts/check_c18.sh") else None
    checks, na = [], []
    for p in props:
        pid = p["id"]
        if pid in CLAIMED and pid in have:
            level, ref, tech, text, note = CLAIMED[pid]
            checks.append({
                "property_id": pid,
                "quick_cmd": f"scripts/check.sh {pid} quick",
                "thorough_cmd": f"scripts/check.sh {pid} thorough",
                "evidence_file": f"/verif/evidence/{pid}.json",
                "replay_cmd_template": f"scripts/check.sh {pid} replay {{path}}",
                "engine": "jwtsim",
                "level_claimed": {"category": level, "text": text, "design_ref": ref},
                "level_note": note,
                "technique": tech,
            })
        else:
            na.append({"property_id": pid, "reason": NA_REASONS.get(pid, NOT_YET)})
    m = {
        "version": 1,
        "setup_cmd": "scripts/setup.sh",
        "hooks": {
            "guard": "LIBJWT_VERIF",
            "enable": "scripts/build.sh passes -DLIBJWT_VERIF in CMAKE_C_FLAGS when it rebuilds /repo; no source hooks exist, every seam is link-time or public API (DESIGN.md 2.10)",
            "baseline_off_cmd": "scripts/baseline.sh",
            "source_commits": [],
            "add_only": True,
        },
        "engines": [{
            "name": "jwtsim",
            "path": "/verif/sim",
            "serves_properties": [c["property_id"] for c in checks],
            "kind_free_text": "deterministic simulator with fault injection: seeded plans (operations with attached faults) executed against the real libjwt rebuilt from /repo under ASan/UBSan (TSan for C18), simulated clock / allocator / entropy / stream I/O / transport, reference models as oracles, ddmin shrinking, replay files",
        }],
        "checks": checks,
        "not_applicable": na,
        "notes": "Exit codes: 0 held (possibly with KNOWN-FINDING lines), 1 VIOLATION property=<id> replay=<path>, 2 harness error. VERIF_SEED seeds everything.",
    }
    json.dump(m, open(f"{ROOT}/MANIFEST.json", "w"), indent=1)
    open(f"{ROOT}/MANIFEST.json", "a").write("\n")
    try:
        import jsonschema
        jsonschema.validate(m, json.load(open("/root/.vp/MANIFEST.schema.json")))
        print("MANIFEST.json valid;", len(checks), "checks,", len(na), "not applicable")
    except ImportError:
        print("jsonschema not importable here; wrote MANIFEST.json without validation")


if __name__ == "__main__":
    main()
