#!/usr/bin/env python3
"""Writes /verif/MANIFEST.json from the table below and validates it against the schema.
A property is claimed when it appears in CLAIMED and jwtsim lists a check for it; every other
property of properties.jsonl goes to not_applicable with its reason."""
import json, subprocess, sys, os

ROOT = "/verif"

CLAIMED = {
    # id: (level, design_ref, technique, level text, level note)
    "C04": ("exploration", "DESIGN.md 4/C04",
            "deterministic simulation: simulated clock + seeded configuration histories vs. a claims reference model",
            "Seeded search over histories of claim_set/claim_del/time_leeway interleaved with clock jumps; verifies are scheduled exactly at the exp/nbf boundary seconds (both sides), with every JSON type in place of each claim; accept <=> model for pristine tokens. Sampling, not proof.",
            "Trusts the claims model written from the statement, the reference token builder (own base64url, OpenSSL HMAC) and jansson for value representation."),
}

NA_REASONS = {
    "C11": "Pure function of one byte string (base64url codec): no schedule, clock, fault or history is involved and the property's own quantifier is exhaustive enumeration, which deterministic simulation does not do; see DESIGN.md section 7.",
    "C20": "The CLI tools are separate executables whose behaviour is a function of argv, stdin and key files; they run outside the simulator and have no schedule, timer, retry or fault surface; driving them with generated arguments would be black-box CLI testing, a different technique; see DESIGN.md section 7.",
}
NOT_YET = "check not built yet in this session (planned per DESIGN.md; listed here only until its profile lands)"


def main():
    props = [json.loads(l) for l in open(f"{ROOT}/properties.jsonl")]
    have = set()
    try:
        out = subprocess.run([f"{ROOT}/.build/asan/jwtsim", "list"], capture_output=True, text=True).stdout.split()
        have = set(out)
    except Exception:
        pass
    have.add("C18") if os.path.exists(f"{ROOT}/scripts/check_c18.sh") else None
    checks, na = [], []
    for p in props:
        pid = p["id"]
        if pid in CLAIMED and pid in have:
            level, ref, tech, text, note = CLAIMED[pid]
            checks.append({
                "property_id": pid,
                "quick_cmd": f"scripts/check.sh {pid} quick",
                "thorough_cmd": f"scripts/check.sh {pid} thorough",
                "evidence_file": f"/verif/evidence/{pid}.json",
                "replay_cmd_template": f"scripts/check.sh {pid} replay {{path}}",
                "engine": "jwtsim",
                "level_claimed": {"category": level, "text": text, "design_ref": ref},
                "level_note": note,
                "technique": tech,
            })
        else:
            na.append({"property_id": pid, "reason": NA_REASONS.get(pid, NOT_YET)})
    m = {
        "version": 1,
        "setup_cmd": "scripts/setup.sh",
        "hooks": {
            "guard": "LIBJWT_VERIF",
            "enable": "scripts/build.sh passes -DLIBJWT_VERIF in CMAKE_C_FLAGS when it rebuilds /repo; no source hooks exist, every seam is link-time or public API (DESIGN.md 2.10)",
            "baseline_off_cmd": "scripts/baseline.sh",
            "source_commits": [],
            "add_only": True,
        },
        "engines": [{
            "name": "jwtsim",
            "path": "/verif/sim",
            "serves_properties": [c["property_id"] for c in checks],
            "kind_free_text": "deterministic simulator with fault injection: seeded plans (operations with attached faults) executed against the real libjwt rebuilt from /repo under ASan/UBSan (TSan for C18), simulated clock / allocator / entropy / stream I/O / transport, reference models as oracles, ddmin shrinking, replay files",
        }],
        "checks": checks,
        "not_applicable": na,
        "notes": "Exit codes: 0 held (possibly with KNOWN-FINDING lines), 1 VIOLATION property=<id> replay=<path>, 2 harness error. VERIF_SEED seeds everything.",
    }
    json.dump(m, open(f"{ROOT}/MANIFEST.json", "w"), indent=1)
    open(f"{ROOT}/MANIFEST.json", "a").write("\n")
    try:
        import jsonschema
        jsonschema.validate(m, json.load(open("/root/.vp/MANIFEST.schema.json")))
        print("MANIFEST.json valid;", len(checks), "checks,", len(na), "not applicable")
    except ImportError:
        print("jsonschema not importable here; wrote MANIFEST.json without validation")


if __name__ == "__main__":
    main()
