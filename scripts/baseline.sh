#!/bin/bash
# The repository's own test suite with the hook guard OFF (plain cmake + ctest, as in BASELINE.json).
set -euo pipefail
B=$(mktemp -d /tmp/libjwt-baseline.XXXXXX)
trap 'rm -rf "$B"' EXIT
cmake -S /repo -B "$B" -G Ninja -DCMAKE_C_FLAGS="-Wno-error" >/dev/null
cmake --build "$B" >/dev/null
ctest --test-dir "$B" -j8 --timeout 900
