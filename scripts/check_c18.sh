#!/bin/bash
# C18: the same seeds under the ASan/UBSan build (result comparison, memory errors) and under the
# ThreadSanitizer build (races made visible under the serialising scheduler). Evidence is merged.
set -uo pipefail
cd /verif
MODE="${1:-quick}"
export VERIF_SEED="${VERIF_SEED:-1}"
A=$(scripts/build.sh asan) || exit 2
T=$(scripts/build.sh tsan) || exit 2
EVID="${VERIF_EVIDENCE_DIR:-/verif/evidence}"
mkdir -p "$EVID" replays .build/run
EA=.build/run/C18-asan-$$.json; ET=.build/run/C18-tsan-$$.json
"$A" check --property C18 --tier "$MODE" --seed "$VERIF_SEED" --evidence "$EA" --known /verif/known_findings.json; ra=$?
"$T" check --property C18 --tier "$MODE" --seed "$VERIF_SEED" --evidence "$ET" --known /verif/known_findings.json; rt=$?
# a violation confirmed by either build stands (exit 1) whatever the other build's run thought of its own health
RC=0
if [ $ra -eq 1 ] || [ $rt -eq 1 ]; then RC=1; elif [ $ra -ne 0 ] || [ $rt -ne 0 ]; then RC=2; fi
if [ $RC -ne 2 ] && [ -f "$EA" ] && [ -f "$ET" ]; then
python3 - "$EA" "$ET" "$EVID/C18.json" <<'PY'
import json, sys
a = json.load(open(sys.argv[1])); t = json.load(open(sys.argv[2]))
ev = t
ca, ct = a["coverage"], t["coverage"]
ev["wall_s"] = a["wall_s"] + t["wall_s"]
ev["violations"] = a.get("violations", 0) + t.get("violations", 0)
ct["evaluations"] = ca["evaluations"] + ct["evaluations"]
ct["simulated_runs"] = ct["evaluations"]
ct["evaluations_asan_ubsan_build"] = ca["evaluations"]
ct["evaluations_tsan_build"] = t["coverage"]["evaluations"] - ca["evaluations"]
# both builds run the same seeds, so the interleavings are the same set: keep the larger count
ct["distinct_nontrivial"] = max(ca["distinct_nontrivial"], ct["distinct_nontrivial"])
ct["counters_asan_ubsan_build"] = ca.get("counters", {})
ct["rule"] += " | evaluations = runs in the ASan/UBSan build + runs in the TSan build over the same seeds"
json.dump(ev, open(sys.argv[3], "w"), indent=1, sort_keys=True)
PY
fi
rm -f "$EA" "$ET"
exit $RC
