#!/bin/bash
# C compiler for the libjwt build of the checks: clang with warnings never fatal. /repo's CMakeLists
# adds -Werror after anything passed in CMAKE_C_FLAGS, and clang warns where the baseline compiler
# (gcc) does not; a tree the baseline builds must build here too.
exec clang "$@" -Wno-error
