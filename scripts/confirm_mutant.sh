#!/bin/bash
# confirm_mutant.sh <worktree> <mutant-dir>  : in the scratch worktree, confirm that the patch
# compiles, keeps the test suite green, and that the demo fails with it and passes without it.
set -uo pipefail
WT="$1"; M="$2"
cd "$WT" || exit 2
git checkout -q -- . || exit 2
build() { cmake -S . -B _b -G Ninja -DCMAKE_C_FLAGS=-Wno-error >/dev/null 2>&1 && cmake --build _b >/dev/null 2>&1; }
demo() {
	local src="$M/demo.c"
	cc -I include -I _b -I libjwt "$src" _b/libjwt.a -ljansson -lssl -lcrypto -lgnutls -lpthread -o "$M/demo.bin" 2>"$M/demo.cc.log" || { echo "demo-compile-failed"; return 99; }
	( cd "$WT" && timeout 300 "$M/demo.bin" >"$M/demo.run.log" 2>&1 ); return $?
}
git apply "$M/patch.diff" || { echo "RESULT apply-failed"; exit 1; }
build || { echo "RESULT build-failed-with-patch"; git checkout -q -- .; exit 1; }
ctest --test-dir _b -j8 >"$M/ctest.confirm.log" 2>&1; T=$?
demo; DW=$?
git checkout -q -- .
build || { echo "RESULT build-failed-clean"; exit 1; }
demo; DC=$?
echo "RESULT tests_with_patch_rc=$T demo_with_patch_rc=$DW demo_clean_rc=$DC"
if [ $T -eq 0 ] && [ $DW -ne 0 ] && [ $DW -ne 99 ] && [ $DC -eq 0 ]; then echo CONFIRMED; exit 0; fi
echo NOT-CONFIRMED; exit 1
