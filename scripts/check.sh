#!/bin/bash
# usage: check.sh <property> quick|thorough            (exit 0 held / 1 VIOLATION / 2 harness error)
#        check.sh <property> replay <file> [--verbose]
set -uo pipefail
cd /verif
PROP="${1:?property id}"
MODE="${2:-quick}"
VARIANT=asan
BIN=$(scripts/build.sh "$VARIANT") || exit 2
EVID="${VERIF_EVIDENCE_DIR:-/verif/evidence}"
mkdir -p "$EVID" replays
export VERIF_SEED="${VERIF_SEED:-1}"
case "$MODE" in
replay)
	shift 2
	exec "$BIN" replay "$@"
	;;
quick|thorough)
	if [ "$PROP" = C18 ]; then
		exec scripts/check_c18.sh "$MODE"
	fi
	exec "$BIN" check --property "$PROP" --tier "$MODE" --seed "$VERIF_SEED" \
		--evidence "$EVID/$PROP.json" --known /verif/known_findings.json
	;;
*)
	echo "usage: check.sh <property> quick|thorough|replay <file>" >&2
	exit 2
	;;
esac
