#!/bin/bash
# Self-test of the "state kept across runs" path of the gate: selftest/state-across-runs.diff makes the GnuTLS
# provider accept any ES384 signature once an Ed448 signature has been verified anywhere in the process. A single
# run rarely contains both events, a worker's history does. The C01 check must report it (exit 1) with a replay
# file that carries the earlier run(s) under "history". /repo is restored afterwards.
set -uo pipefail
cd /verif
if [ -n "$(git -C /repo status --porcelain --untracked-files=no)" ]; then echo "/repo is dirty" >&2; exit 2; fi
git -C /repo apply /verif/selftest/state-across-runs.diff || exit 2
trap 'git -C /repo checkout -q -- .; /verif/scripts/build.sh asan >/dev/null 2>&1' EXIT
export VERIF_EVIDENCE_DIR=/verif/.build/run/mutant-evidence
OUT=$(scripts/check.sh C01 quick 2>&1); RC=$?
echo "$OUT" | grep -E "needs earlier runs|^VIOLATION property|SUMMARY" | cut -c1-240
[ $RC -eq 1 ] || { echo "selftest_history: expected exit 1, got $RC"; exit 1; }
N=0
for f in $(echo "$OUT" | sed -n 's/^VIOLATION property=C01 replay=//p'); do
	if jq -e '.history | length > 0' "$f" >/dev/null 2>&1; then N=$((N+1)); fi
done
[ $N -gt 0 ] || { echo "selftest_history: no replay file carries a history"; exit 1; }
echo "HISTORY-REPLAY OK ($N replay file(s) with earlier runs)"
