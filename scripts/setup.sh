#!/bin/bash
# Build the simulator variants and the deterministic RSA key pool (offline, from files on disk).
set -euo pipefail
cd /verif
BIN=$(scripts/build.sh asan)
"$BIN" setup
scripts/build.sh tsan >/dev/null 2>&1 || echo "setup: tsan variant not built yet" >&2
echo "setup ok: $BIN"
