#!/bin/bash
# Build libjwt from /repo's current working tree (sanitizer variant) and link jwtsim against it.
# usage: build.sh [asan|tsan]      env: VERIF_REPO=<dir> (sensitivity experiments only)
set -euo pipefail
VARIANT="${1:-asan}"
REPO="${VERIF_REPO:-/repo}"
ROOT=/verif
TAG="$VARIANT"
if [ "$REPO" != "/repo" ]; then
	TAG="$VARIANT-$(echo -n "$REPO" | md5sum | cut -c1-8)"
fi
B="$ROOT/.build/$TAG"
mkdir -p "$B"
exec 9>"$B/.lock"
flock 9

case "$VARIANT" in
asan) SAN="-fsanitize=address,undefined -fno-sanitize-recover=undefined" ;;
tsan) SAN="-fsanitize=thread" ;;
*) echo "unknown variant $VARIANT" >&2; exit 2 ;;
esac
# LIBJWT_VERIF is the reserved guard for hooks in /repo (none are needed; see DESIGN 2.10).
CFLAGS="-Wno-error -g -O1 -fno-omit-frame-pointer $SAN -D__compiler_offsetof=__builtin_offsetof -DLIBJWT_VERIF"

if [ ! -f "$B/lib/build.ninja" ] || [ "$(cat "$B/lib/.repo" 2>/dev/null)" != "$REPO" ] || [ ! -f "$B/lib/.lenient" ]; then
	rm -rf "$B/lib"
	cmake -S "$REPO" -B "$B/lib" -G Ninja -DCMAKE_C_COMPILER="$ROOT/scripts/clang-lenient.sh" -DCMAKE_BUILD_TYPE=None \
		-DWITH_TESTS=OFF -DWITH_GNUTLS=ON -DCMAKE_C_FLAGS="$CFLAGS" >"$B/cmake.log" 2>&1 || {
		cat "$B/cmake.log" >&2
		echo "build.sh: cmake configure failed" >&2
		exit 2
	}
	echo -n "$REPO" >"$B/lib/.repo"
	touch "$B/lib/.lenient"
fi
ninja -C "$B/lib" jwt_static >"$B/ninja.log" 2>&1 || {
	tail -50 "$B/ninja.log" >&2
	echo "build.sh: libjwt build failed" >&2
	exit 2
}

CXXFLAGS="-std=c++17 -g -O1 -fno-omit-frame-pointer $SAN -Wall -Wextra -Wno-unused-parameter -Wno-deprecated-declarations -I$REPO/include -I$B/lib -I$ROOT/sim"
[ "$VARIANT" = tsan ] && CXXFLAGS="$CXXFLAGS -DSIM_TSAN"
mkdir -p "$B/obj"
OBJS=()
PIDS=()
for src in "$ROOT"/sim/*.cpp; do
	o="$B/obj/$(basename "$src" .cpp).o"
	OBJS+=("$o")
	need=0
	if [ ! -f "$o" ]; then need=1; else
		for dep in "$src" "$ROOT"/sim/*.hpp "$REPO/include/jwt.h"; do
			if [ "$dep" -nt "$o" ]; then need=1; break; fi
		done
	fi
	if [ $need = 1 ]; then
		clang++ $CXXFLAGS -c "$src" -o "$o" &
		PIDS+=($!)
	fi
done
for p in "${PIDS[@]:-}"; do
	[ -n "$p" ] && { wait "$p" || { echo "build.sh: compiling jwtsim failed" >&2; exit 2; }; }
done
if [ ! -f "$B/jwtsim" ] || [ "$B/lib/libjwt.a" -nt "$B/jwtsim" ] || [ ${#PIDS[@]} -gt 0 ]; then
	clang++ $SAN -g -rdynamic -o "$B/jwtsim.tmp" "${OBJS[@]}" "$B/lib/libjwt.a" \
		-ljansson -lssl -lcrypto -lgnutls -lpthread -ldl || {
		echo "build.sh: linking jwtsim failed" >&2
		exit 2
	}
	mv "$B/jwtsim.tmp" "$B/jwtsim"
fi
echo "$B/jwtsim"
