#!/bin/bash
# try_mutant.sh <patch.diff> <property> [quick|thorough] : apply a seeded change to /repo, run the
# property's check, and undo it straight afterwards. Prints DETECTED / MISSED.
set -uo pipefail
P="$(realpath "$1")"; PROP="$2"; TIER="${3:-quick}"
if [ -n "$(git -C /repo status --porcelain --untracked-files=no)" ]; then echo "/repo is dirty" >&2; exit 2; fi
git -C /repo apply "$P" || { echo "apply failed" >&2; exit 2; }
trap 'git -C /repo checkout -q -- .; /verif/scripts/build.sh asan >/dev/null 2>&1' EXIT
# evidence of runs on a changed tree never lands in /verif/evidence
export VERIF_EVIDENCE_DIR=/verif/.build/run/mutant-evidence
OUT=$(/verif/scripts/check.sh "$PROP" "$TIER" 2>&1); RC=$?
echo "$OUT" | grep -E "^VIOLATION|^KNOWN|SUMMARY|HARNESS" | cut -c1-400 | head -12
if [ $RC -eq 1 ]; then echo "DETECTED rc=1"; elif [ $RC -eq 0 ]; then echo "MISSED rc=0"; else echo "HARNESS-ERROR rc=$RC"; fi
