// Profile "world": owners publish keys, issuers build tokens, an adversarial transport damages,
// splices, re-signs and misroutes them, verifiers judge. Monitors for C01, C02, C03, C05, C06,
// C08, C09, C12 (and C14 through lib_verify/lib_generate) run on every event.
#include "world.hpp"
#include <openssl/err.h>

// the last two: curves no ES algorithm admits (512 bits is not P-521's 521; 224 bits fits nothing) - importable, never usable
static const char *EC_CRV[] = {"P-256", "P-384", "P-521", "secp256k1", "brainpoolP512r1", "secp224r1"};
static const int N_EC_CRV = 6;
static int crv_idx(const std::string &crv)
{
	for (int i = 0; i < N_EC_CRV; i++)
		if (crv == EC_CRV[i])
			return i;
	return 3;
}
static const char *OKP_CRV[] = {"Ed25519", "Ed448"};
static const char *UNKNOWN_ALGS[] = {"HS999", "rs256", "none ", "", "RSA-OAEP", "A128KW"};
static const char *KEY_OPS[] = {"sign", "verify", "encrypt", "decrypt", "wrapKey", "unwrapKey", "deriveKey", "deriveBits"};

// ---------------------------------------------------------------- helpers on key kinds
static std::vector<int> natural_algs(int kind, int size)
{
	switch (kind) {
	case 0:
		return {JWT_ALG_HS256, JWT_ALG_HS384, JWT_ALG_HS512};
	case 1:
		return {JWT_ALG_RS256, JWT_ALG_RS384, JWT_ALG_RS512, JWT_ALG_PS256, JWT_ALG_PS384, JWT_ALG_PS512};
	case 2:
		return {size == 0 ? JWT_ALG_ES256 : size == 1 ? JWT_ALG_ES384 : size == 2 || size == 4 ? JWT_ALG_ES512 : size == 5 ? JWT_ALG_ES256 : JWT_ALG_ES256K};
	default:
		return {JWT_ALG_EDDSA};
	}
}

static int foreign_alg(Rng &r, int kind)
{
	static const int all[] = {JWT_ALG_HS256, JWT_ALG_HS512, JWT_ALG_RS256, JWT_ALG_PS384, JWT_ALG_ES256, JWT_ALG_ES384, JWT_ALG_ES256K, JWT_ALG_EDDSA};
	for (int tries = 0; tries < 20; tries++) {
		int a = r.pick(all);
		Family f = ALGS[a].fam;
		bool same = (kind == 0 && f == FAM_HS) || (kind == 1 && (f == FAM_RS || f == FAM_PS)) || (kind == 2 && f == FAM_ES) || (kind == 3 && f == FAM_ED);
		if (!same)
			return a;
	}
	return JWT_ALG_HS256;
}

static Step gen_owner(Rng &r, const std::string &bias, int force_kind = -1)
{
	Step s("OWNER");
	int kind = force_kind >= 0 ? force_kind : (int)r.pick(std::vector<int>{0, 0, 1, 2, 2, 3});
	s.set("kind", kind);
	int size = 0;
	bool weak_bias = bias == "C09";
	switch (kind) {
	case 0:
		if (weak_bias)
			size = (int)r.range(0, 160);
		else
			size = (int)r.pick(std::vector<int>{32, 32, 48, 64, 64, 33, 100, 160, 256, 512, 31, 16, 1});
		break;
	case 1:
		if (weak_bias)
			size = (int)r.range(0, N_RSA_POOL_BITS - 1);
		else
			size = (int)r.pick(std::vector<int>{4, 4, 4, 4, 5, 6, 1, 3, 11, 12, 13}); // mostly 2048; 11-13: moduli of 2052, 2050, 3076 bits (not a multiple of 8)
		if (!weak_bias && r.chance(1, 40))
			size = 14; // 12288 bits: a PEM of more than 8 KB
		s.set("idx", r.range(0, 1));
		break;
	case 2:
		// P-521 more often where signatures are the subject: its 66-octet coordinates make short r/s
		// values (sign-side padding paths) two hundred times more frequent than on the other curves
		size = (bias == "C05" || bias == "C12" || bias == "C06" || bias == "C01") ? (int)r.pick(std::vector<int>{0, 1, 2, 2, 2, 3}) : (int)r.range(0, 3);
		if (weak_bias && r.chance(1, 4))
			size = (int)r.range(4, 5);
		break;
	default:
		size = (int)r.range(0, 1);
	}
	s.set("size", size);
	int attr = (int)r.pick(std::vector<int>{0, 0, 0, 1, 1, 1, 2, 3, 4});
	if (bias == "C05" || bias == "C12")
		attr = (int)r.pick(std::vector<int>{0, 0, 1, 1, 1});
	s.set("attr", attr);
	std::vector<int> nat = natural_algs(kind, size);
	int a = JWT_ALG_NONE;
	if (attr == 1)
		a = r.pick(nat);
	else if (attr == 2) { // sibling: another member of the same family / another curve's alg
		if (kind == 2) {
			static const int es[] = {JWT_ALG_ES256, JWT_ALG_ES384, JWT_ALG_ES512, JWT_ALG_ES256K};
			do
				a = r.pick(es);
			while (a == nat[0]);
		} else if (kind == 3)
			a = JWT_ALG_EDDSA;
		else
			a = r.pick(nat);
	} else if (attr == 3)
		a = foreign_alg(r, kind);
	else if (attr == 4)
		a = (int)r.below(ARRAY_LEN(UNKNOWN_ALGS));
	s.set("attr_alg", a);
	s.set("kid", r.chance(1, 6) ? r.range(4, 8) : r.range(0, 3)); // 4..8: long kids (255, 256, 257, 300, 2048 bytes)
	s.set("kidn", r.range(0, 5));
	s.set("use", r.chance(1, 2) ? 0 : r.range(0, 3));
	s.set("ops", r.chance(1, 2) ? 0 : (int64_t)r.below(2048)); // bits 9, 10: array entries that are not strings
	s.set("pad", r.chance(2, 3) ? 0 : r.range(1, 3));
	s.set("ecmin", r.chance(1, 4) ? 1 : 0);
	s.set("extra", r.chance(1, 2) ? 0 : (int64_t)r.below(64));
	s.set("loadprov", r.chance(3, 4) ? 0 : 1);
	// oct k written with '=' padding (1) or with characters after a '=' (2, only where the floor is the subject)
	if (kind == 0 && r.chance(1, 4))
		s.set("octpad", bias == "C09" && r.chance(1, 2) ? 2 : 1);
	if (r.chance(1, 5))
		s.set("decoy", r.range(1, 1000));
	// a key document the owner broke (unknown OKP curve, RSA private part incomplete, EC coordinate
	// missing): the import flags the item, yet nothing stops an application from handing it to a checker
	if (kind != 0 && (bias == "C09" || bias == "C01" || bias == "C02") && r.chance(1, 8))
		s.set("broken", r.range(1, 3));
	return s;
}

static void world_gen(Rng &r, Plan &p, Tier tier, uint64_t index)
{
	std::string bias = p.property;
	if (bias == "C10")
		bias = "C05"; // token shape over every key type, size and algorithm: fault-free issuing with signature bursts
	if (bias == "C14")
		bias = r.pick(std::vector<std::string>{"C01", "C02", "C03", "C05", "C06", "C09"});
	p.cfg["bias"] = Val(bias);
	// swarm knobs: one thread per step (GnuTLS signatures independent of history) or one thread per
	// run (thread-local library state - error queues, per-thread caches - carries over between steps);
	// allocator hands freed blocks straight back (address reuse) or leaves them to ASan's quarantine
	p.cfg["one_thread"] = Val((int64_t)(r.chance(1, 2) ? 1 : 0));
	// (address reuse matters most where thread-local state survives from step to step: half of the one-thread runs)
	p.cfg["reuse"] = Val((int64_t)(r.chance(1, p.C("one_thread") ? 2 : 4) ? 1 : 0));
	uint64_t uid = 1;
	// allocation failures inside the operations of the world (a per-run knob): the k-th request of the installed
	// allocator during one verify / generate / key import returns NULL (sometimes every request from the k-th on)
	bool allocfaults = r.chance(1, 3);
	p.cfg["allocfaults"] = Val((int64_t)allocfaults);
	auto push = [&](Step s) {
		s.uid = uid++;
		if (allocfaults && (s.op == "DELIVER" || s.op == "GARBAGE" || s.op == "ISSUE") && r.chance(1, 3)) {
			// the k-th request counted from the start of the call, or (a third of the time) from its end: the last
			// requests of a verify or generate are the signature, DER and output buffers
			if (r.chance(1, 3))
				s.set("failend", r.range(1, 5));
			else
				s.set("failalloc", r.chance(2, 3) ? r.range(1, 40) : r.range(1, 90));
			if (r.chance(1, 5))
				s.set("failfrom", 1);
		}
		if (allocfaults && s.op == "OWNER" && r.chance(1, 6))
			s.set("failalloc", r.range(1, 220));
		if (allocfaults && s.op == "VERIFIER" && s.I("expect") && r.chance(1, 2))
			s.set("failalloc", r.range(1, 12));
		p.steps.push_back(s);
	};
	int n_owner = (int)r.range(2, bias == "C08" ? 8 : 4);
	int first_kind = -1;
	for (int i = 0; i < n_owner; i++) {
		Step o = gen_owner(r, bias, i == 1 ? first_kind : -1);
		if (tier == THOROUGH && o.I("kind") == 1 && r.chance(1, 3))
			o.set("size", r.range(4, 13)); // thorough tier: the unusual modulus sizes of the pool more often
		if (bias == "C09" && i == 0) {
			// stratified: run i uses oct length i mod 161 for the first owner (or a weak RSA/EC cell)
			int cell = (int)(index % 200);
			if (cell <= 160) {
				o.set("kind", 0);
				o.set("size", cell);
			} else if (cell < 180) {
				o.set("kind", 1);
				o.set("size", (int64_t)(cell % N_RSA_POOL_BITS));
				o.set("idx", (int64_t)(cell & 1));
			} else {
				o.set("kind", 2);
				o.set("size", (int64_t)(cell % 4));
			}
			o.set("attr", (int64_t)(r.chance(1, 2) ? 0 : 1));
			std::vector<int> nat = natural_algs((int)o.I("kind"), (int)o.I("size"));
			o.set("attr_alg", (int64_t)r.pick(nat));
		}
		if (i == 0)
			first_kind = (int)o.I("kind");
		push(o);
	}
	int n_ver = (int)r.range(1, 5), n_iss = (int)r.range(1, 3);
	// C02: stratified core matrix (explicit alg x route); key kind / attr come from the owners,
	// the header alg from the mutations below.
	for (int i = 0; i < n_ver; i++) {
		Step v("VERIFIER");
		v.set("owner", (int64_t)r.below((uint64_t)n_owner));
		v.set("form", r.chance(3, 4) ? 0 : 1);
		int route;
		if (bias == "C01" || bias == "C09")
			route = (int)r.pick(std::vector<int>{0, 0, 0, 1, 2, 4, 8});
		else if (bias == "C03")
			route = (int)r.pick(std::vector<int>{0, 0, 1, 2, 3, 4, 6, 6, 6, 7, 8, 9, 10});
		else if (bias == "C05" || bias == "C12")
			route = (int)r.pick(std::vector<int>{0, 1, 2, 4, 4, 4});
		else
			route = (int)r.pick(std::vector<int>{0, 0, 0, 1, 1, 2, 3, 4, 5, 6, 7, 8, 9, 10, 11});
		v.set("route", route);
		int ex;
		if (bias == "C02" && i == 0)
			ex = (int)(index % 16);
		else
			ex = (int)r.pick(std::vector<int>{0, 0, 0, -1, -1, -1, -1, -2, -3}); // -1 natural, -2 any, -3 invalid
		v.set("explicit", ex);
		v.set("exsel", (int64_t)r.below(64));
		v.set("prov", r.chance(1, 2) ? 0 : 1);
		if (r.chance(1, 5))
			v.set("timeoff", 1);
		if (route >= 7 && r.chance(1, 2))
			v.set("selective", 1); // the callback overrides for some tokens only (DELIVER says for which)
		if (r.chance(1, 4))
			v.set("ctxupd", 1);
		if (bias == "C06" && r.chance(1, 2))
			v.set("expect", r.range(1, 7)); // bit0 iss, bit1 sub, bit2 aud expectations
		push(v);
	}
	for (int i = 0; i < n_iss; i++) {
		Step s("ISSUER");
		s.set("owner", (int64_t)r.below((uint64_t)n_owner));
		s.set("form", r.chance(9, 10) ? 1 : 0);
		int route = (bias == "C03") ? (int)r.pick(std::vector<int>{0, 0, 1, 2, 2, 2, 3, 6, 6, 7, 7, 8, 9, 10, 11}) : (int)r.pick(std::vector<int>{0, 0, 0, 0, 1, 2, 4, 6, 8});
		if (bias == "C02")
			route = (int)r.pick(std::vector<int>{0, 0, 0, 1, 1, 2, 3, 7, 8, 9, 10, 11});
		s.set("route", route);
		int ex = (bias == "C02" && i == 0) ? (int)((index / 16) % 16) : (int)r.pick(std::vector<int>{0, -1, -1, -1, -1, -2, -3});
		s.set("explicit", ex);
		s.set("exsel", (int64_t)r.below(64));
		s.set("prov", r.chance(1, 2) ? 0 : 1);
		s.set("hdr_seed", (int64_t)r.below(1 << 30));
		s.set("claims_seed", (int64_t)r.below(1 << 30));
		s.set("iat", r.chance(3, 4) ? 1 : 0);
		s.set("typ", r.chance(1, 5) ? 1 : 0);
		if (r.chance(1, 4))
			s.set("ctxupd", 1);
		// exp offset: none, short, 20 years, 2^40 seconds (time_t arithmetic must not be narrowed)
		if (r.chance(1, 3))
			s.set("exp_off", (int64_t)r.pick(std::vector<int64_t>{60, 3600, 631152000LL, 1LL << 40, (1LL << 31) + 5}));
		push(s);
	}
	// fault probability per delivery is drawn per run so that fault-free and fault-heavy runs both occur
	static const int fprob_any[] = {0, 20, 50, 90};
	int fprob = r.pick(fprob_any);
	if (bias == "C01" || bias == "C02" || bias == "C03")
		fprob = (int)r.pick(std::vector<int>{50, 75, 90, 100});
	if (bias == "C05")
		fprob = 0;
	if (bias == "C08")
		fprob = 20;
	p.cfg["fault_pct"] = Val((int64_t)fprob);
	int n_ev = (int)r.range(8, tier == QUICK ? 30 : 60);
	if (bias == "C08")
		n_ev = (int)r.range(2, 8);
	int issued = 0;
	for (int e = 0; e < n_ev; e++) {
		int roll = (int)r.below(100);
		// (the larger issuing share of C05/C12 comes out of the delivery range at the top, not out of the rare events below)
		if (issued == 0 || roll < 22 || ((bias == "C05" || bias == "C12") && roll >= 82)) {
			if (r.chance(1, 2)) {
				Step s("ISSUE");
				s.set("issuer", (int64_t)r.below((uint64_t)n_iss));
				// bursts: many signatures from one issuer, so that rare signer events (r or s one or two
				// octets short: 1 in 256 / 1 in 65536, on P-521 1 in 2 / 1 in 512) occur many times
				if ((bias == "C05" || bias == "C12") && r.chance(1, 3))
					s.set("burst", r.range(4, 40));
				push(s);
			} else {
				Step s("REFISSUE");
				s.set("owner", (int64_t)r.below((uint64_t)n_owner));
				s.set("alg", -1);
				s.set("algsel", (int64_t)r.below(64));
				s.set("claims_seed", (int64_t)r.below(1 << 30));
				if (r.chance(1, 8))
					s.set("unsigned", 1);
				else if (r.chance(2, 3))
					s.set("forv", (int64_t)r.below((uint64_t)n_ver)); // tailored to a verifier's key and pin
				push(s);
			}
			issued++;
		} else if (roll < 26) {
			Step s("ADVANCE");
			// the clock mostly moves forward; now and then it is stepped back (NTP correction, VM resume)
			s.set("dt", r.chance(1, 5) ? -r.range(1, r.chance(1, 2) ? 3 : 7200) : r.range(0, 3600));
			push(s);
		} else if (roll < 30 && bias != "C05" && bias != "C08") {
			// key rotation / reconfiguration of a verifier in mid-run: tokens issued for the old
			// configuration are replayed later from the pool against the new one
			Step s("RECONFIG");
			s.set("to", (int64_t)r.below((uint64_t)n_ver));
			s.set("owner", (int64_t)r.below((uint64_t)n_owner));
			s.set("form", r.chance(3, 4) ? 0 : 1);
			s.set("explicit", (int64_t)r.pick(std::vector<int>{0, 0, -1, -1, -1, -2, -3}));
			s.set("exsel", (int64_t)r.below(64));
			s.set("clear", r.chance(1, 6) ? 1 : 0);
			if (r.chance(1, 4)) {
				// a call the table refuses (algorithm without a key) on a configured party: the configuration in
				// force must stay exactly what it was; a quarter of them go to issuers
				s.set("clear", 2);
				if (r.chance(1, 3))
					s.set("issuer", 1);
			}
			push(s);
		} else if (roll < 31 && e > 2) {
			// a new key owner joins in mid-run: its keys are imported after whatever happened before
			// (rejected tokens, malformed documents) on the same thread
			Step o = gen_owner(r, bias);
			o.set("late", 1);
			push(o);
		} else if (roll < (bias == "C01" || bias == "C12" || bias == "C13" ? 35 : 33) && bias != "C05" && bias != "C08") {
			// the owner retires its key: key sets freed, a new key of the same kind loaded, the verifiers
			// that held the old key re-pointed to the new one; old tokens stay in the pool and come back
			Step s("ROTATE");
			int64_t ro = (int64_t)r.below((uint64_t)n_owner);
			s.set("owner", ro);
			bool weaken = (bias == "C09" || bias == "C13") && r.chance(1, 2);
			int64_t wv = (int64_t)r.below((uint64_t)n_ver), wseed = (int64_t)r.below(1 << 30), wsel = (int64_t)r.below(64);
			auto tailored = [&]() {
				// a token signed by owner ro's current key under the algorithm a verifier holding that key pinned, delivered to it
				Step ri("REFISSUE");
				ri.set("owner", ro);
				ri.set("alg", -1);
				ri.set("algsel", wsel);
				ri.set("claims_seed", wseed);
				ri.set("forv", wv);
				ri.set("forowner", 1);
				push(ri);
				Step d("DELIVER");
				d.set("token", 0);
				d.set("latest", 1);
				d.set("to", wv);
				d.set("match", 1);
				push(d);
			};
			if (weaken) {
				// the new key is below the floor of the algorithms the old one was used with; the same verifier
				// verifies a good token right before the rotation and one signed by the weak key right after it
				s.set("weaken", r.range(1, 1000));
				tailored();
			}
			push(s);
			if (weaken)
				tailored();
			// late replay: a token signed with the retired key goes to a verifier that now holds the new one
			int nrep = (int)r.range(bias == "C01" || bias == "C12" ? 1 : 0, 3);
			for (int k = 0; k < nrep; k++) {
				Step d("DELIVER");
				d.set("token", (int64_t)r.below(64));
				d.set("to", (int64_t)r.below((uint64_t)n_ver));
				d.set("retired_of", ro + 1);
				push(d);
			}
		} else if ((bias == "C06" && roll < 75) || roll < 38) {
			Step s("GARBAGE");
			s.set("to", (int64_t)r.below((uint64_t)n_ver));
			s.set("kind", (int64_t)r.below((uint64_t)N_GARBAGE_KINDS));
			s.set("seed", (int64_t)r.below(1 << 30));
			int64_t len;
			switch (r.below(6)) {
			case 0:
				len = r.range(0, 8);
				break;
			case 1:
				len = (1LL << r.range(2, 16)) + r.range(-2, 2);
				break;
			case 2:
				len = r.range(0, 65536);
				break;
			default:
				len = r.range(0, 400);
			}
			s.set("len", len);
			s.set("token", (int64_t)r.below(64));
			if (s.I("kind") == 5 || s.I("kind") == 12) {
				int k = (int)r.range(1, 6);
				for (int i = 0; i < k; i++)
					s.sub.push_back(gen_mutation(r, "C06"));
			}
			push(s);
		} else {
			Step s("DELIVER");
			s.set("token", (int64_t)r.below(64));
			s.set("to", (int64_t)r.below((uint64_t)n_ver));
			if (r.chance(1, 2))
				s.set("cbpassive", 1); // a verifier with a selective callback: for this token the callback only looks
			if (r.chance(1, 3))
				s.set("noclear", 1); // a rejection is not followed by jwt_checker_error_clear
			if (r.chance(3, 4))
				s.set("match", 1); // route to a verifier that holds the issuing owner's key when one exists
			if ((int)r.below(100) < fprob) {
				int k = r.chance(3, 4) ? 1 : (int)r.range(2, 3);
				for (int i = 0; i < k; i++)
					s.sub.push_back(gen_mutation(r, bias));
			}
			push(s);
		}
	}
}

// ---------------------------------------------------------------- world state
struct Owner {
	Step spec; // the OWNER step it was made from (rotation makes a new key of the same kind)
	KeyRef truth;
	LoadedKey priv, pub;
	bool ok = false;
	bool broken = false; // the published documents are defective on purpose: items exist but are flagged
	bool exotic = false; // a curve outside the four the properties name: whether it imports is not judged, that it never signs or verifies is
	int key_alg = JWT_ALG_NONE; // what the JWK's alg attribute denotes (NONE absent, INVAL unknown)
	int kind = 0;
};

struct Party {
	bool is_checker = true;
	jwt_checker_t *chk = nullptr;
	jwt_builder_t *bld = nullptr;
	int owner = -1;
	bool form_priv = false;
	int explicit_alg = JWT_ALG_NONE;
	int route = 0;
	int prov = 0;
	std::unique_ptr<CbCtx> cb;
	// model of the configuration in force
	bool has_key = false;
	int key_alg = JWT_ALG_NONE;
	int eff_explicit = JWT_ALG_NONE;
	bool reject_all = false; // callback returns error
	bool pin_dontcare = false;
	// a callback that overrides key and/or algorithm for some tokens only: the configuration in force with the callback
	// acting (A) and with the callback only looking (B = what setkey installed)
	bool selective = false;
	struct Eff {
		bool has_key = false;
		int owner = -1, key_alg = JWT_ALG_NONE, eff_explicit = JWT_ALG_NONE;
	} effA, effB;
	std::vector<int> refs; // owners whose key items the object or its callback context may point to
	int expect = 0;       // checker: bit0 iss, bit1 sub, bit2 aud expectations (C06 bias)
	int64_t exp_off = 0;  // issuer: exp offset
	// issuer content
	json_t *hdr_in = nullptr, *claims_in = nullptr;
	bool iat = true;
};

struct Msg {
	std::string token;
	int owner = -1;
	int orig_owner = -1; // never changes; owner becomes -2 when the signing key is retired
	int alg = JWT_ALG_NONE;
	bool from_builder = false;
	int issuer = -1;
	int prov = 0;
	int64_t issued_at = 0;
	int64_t exp_at = 0; // builder tokens with an exp offset: the instant from which every checker must reject them
	bool unsigned_tok = false;
};

struct World {
	Ctx &ctx;
	const Plan &plan;
	std::string bias;
	std::vector<Owner> owners;
	std::vector<Party> verifiers, issuers;
	std::vector<Msg> pool;
	World(Ctx &c) : ctx(c), plan(*c.plan) {}
};

static const char *row_class(bool has_key, int key_alg, int ex)
{
	if (!has_key)
		return ex == JWT_ALG_NONE ? "none/NULL" : "alg-A/NULL";
	if (key_alg == JWT_ALG_NONE)
		return ex == JWT_ALG_NONE ? "none/none" : "alg-A/none";
	if (ex == JWT_ALG_NONE)
		return "none/alg-A";
	return ex == key_alg ? "alg-A/alg-A" : "alg-A/alg-B";
}

static int choose_explicit(const Step &s, const Owner *o)
{
	int ex = (int)s.I("explicit");
	if (ex >= 0)
		return ex; // literal enum value, including 15 = INVAL
	uint64_t sel = (uint64_t)s.I("exsel");
	if (ex == -1 && o) {
		std::vector<int> nat = natural_algs(o->kind, o->truth->kty == K_EC ? crv_idx(o->truth->crv) : 0);
		if (o->key_alg > JWT_ALG_NONE && o->key_alg < JWT_ALG_INVAL && sel % 3)
			return o->key_alg;
		return nat[sel % nat.size()];
	}
	if (ex == -2)
		return 1 + (int)(sel % 14);
	if (ex == -3)
		return JWT_ALG_INVAL;
	return JWT_ALG_NONE;
}

// ---------------------------------------------------------------- OWNER (+ C08 monitor)
static void check_c08(World &w, const Owner &o, const LoadedKey &lk, const JwkOpts &opts, const char *form, const Step &s,
		      const std::string &jwk_plain)
{
	Ctx &ctx = w.ctx;
	const KeyTruth &k = *o.truth;
	const jwk_item_t *it = lk.item;
	std::string what = strf("%s %s", k.label.c_str(), form);
	auto bad = [&](const std::string &field, const std::string &detail) {
		ctx.violation("C08", "import-" + field, field + ":" + (k.kty == K_OCT ? "oct" : k.kty == K_RSA ? "RSA" : k.kty == K_EC ? "EC" : "OKP"),
			      strf("%s: %s; jwk=%s", what.c_str(), detail.c_str(), show(lk.jwk, 400).c_str()));
	};
	if (!it) {
		bad("item", "no item was created");
		return;
	}
	if (jwks_item_error(it)) {
		bad("error", strf("well-formed JWK flagged as bad: %s", jwks_item_error_msg(it)));
		return;
	}
	jwk_key_type_t want_kty = k.kty == K_OCT ? JWK_KEY_TYPE_OCT : k.kty == K_RSA ? JWK_KEY_TYPE_RSA : k.kty == K_EC ? JWK_KEY_TYPE_EC : JWK_KEY_TYPE_OKP;
	if (jwks_item_kty(it) != want_kty)
		bad("kty", strf("kty reported %d, expected %d", jwks_item_kty(it), want_kty));
	if (jwks_item_key_bits(it) != k.bits)
		bad("bits", strf("key_bits reported %d, expected %d", jwks_item_key_bits(it), k.bits));
	const char *crv = jwks_item_curve(it);
	if (k.kty == K_EC || k.kty == K_OKP) {
		if (!crv || k.crv != crv)
			bad("curve", strf("curve reported %s, expected %s", crv ? crv : "(null)", k.crv.c_str()));
	} else if (crv)
		bad("curve", strf("curve reported %s for a key type without curve", crv));
	int want_priv = (k.kty == K_OCT || opts.priv) ? 1 : 0;
	if (jwks_item_is_private(it) != want_priv)
		bad("is_private", strf("is_private reported %d, expected %d", jwks_item_is_private(it), want_priv));
	if ((int)jwks_item_alg(it) != o.key_alg)
		bad("alg", strf("alg reported %s, expected %s", alg_name(jwks_item_alg(it)), alg_name(o.key_alg)));
	const char *kid = jwks_item_kid(it);
	if (opts.has_kid && !opts.kid.empty()) {
		if (!kid || opts.kid != kid)
			bad("kid", strf("kid reported %s, expected %s", kid ? show(kid).c_str() : "(null)", show(opts.kid).c_str()));
	} else if (!opts.has_kid && kid)
		bad("kid", strf("kid reported %s for a JWK without kid", show(kid).c_str()));
	jwk_pub_key_use_t want_use = opts.use == "sig" ? JWK_PUB_KEY_USE_SIG : opts.use == "enc" ? JWK_PUB_KEY_USE_ENC : JWK_PUB_KEY_USE_NONE;
	if (jwks_item_use(it) != want_use)
		bad("use", strf("use reported %d, expected %d", jwks_item_use(it), want_use));
	unsigned want_ops = 0;
	for (auto &op : opts.key_ops)
		for (size_t i = 0; i < ARRAY_LEN(KEY_OPS); i++)
			if (op == KEY_OPS[i])
				want_ops |= 1u << i;
	if ((unsigned)jwks_item_key_ops(it) != want_ops)
		bad("key_ops", strf("key_ops reported 0x%x, expected 0x%x", (unsigned)jwks_item_key_ops(it), want_ops));
	// key material
	std::string pem_s;
	if (k.kty == K_OCT) {
		const unsigned char *buf = NULL;
		size_t len = 0;
		int rc = jwks_item_key_oct(it, &buf, &len);
		if (k.oct.empty()) {
			// statement quantifies over oct 1-512 bytes; nothing asserted for the empty key
		} else if (rc != 0 || std::string((const char *)buf, len) != k.oct)
			bad("oct", strf("key_oct rc=%d len=%zu differs from the %zu bytes k encodes", rc, len, k.oct.size()));
	} else {
		const char *pem = jwks_item_pem(it);
		if (!pem)
			bad("pem", "no PEM for an asymmetric key");
		else {
			pem_s = pem;
			EVP_PKEY *pk = pem_to_pkey(pem, opts.priv);
			if (!pk)
				bad("pem", strf("PEM does not parse as a %s key", opts.priv ? "private" : "public"));
			else {
				if (!key_pub_equal(k, pk))
					bad("pub", "public components of the imported key differ from the JWK's");
				else if (opts.priv && !key_priv_equal(k, pk))
					bad("priv", "private components of the imported key differ from the JWK's");
				// kty RSA denotes an RSA key; only an alg attribute of the PS family makes it an RSASSA-PSS key
				if (k.kty == K_RSA && EVP_PKEY_is_a(pk, "RSA-PSS") && !(o.key_alg == JWT_ALG_PS256 || o.key_alg == JWT_ALG_PS384 || o.key_alg == JWT_ALG_PS512))
					bad("pem-key-type", strf("the PEM holds an RSASSA-PSS key although the JWK's alg attribute is %s", opts.has_alg ? show(opts.alg, 20).c_str() : "absent"));
				EVP_PKEY_free(pk);
			}
		}
	}
	// members that do not belong to the key type, or unknown ones, never change the imported key
	if (!opts.extra.empty() && jwk_plain != lk.jwk) {
		LoadedKey plain;
		if (lib_load_key(ctx, jwk_plain, plain)) {
			const char *p2 = jwks_item_pem(plain.item);
			std::string pem2 = p2 ? p2 : "";
			bool same = pem2 == pem_s && jwks_item_key_bits(plain.item) == jwks_item_key_bits(it) &&
				    jwks_item_alg(plain.item) == jwks_item_alg(it) && jwks_item_kty(plain.item) == jwks_item_kty(it);
			if (k.kty == K_OCT) {
				const unsigned char *b1 = NULL, *b2 = NULL;
				size_t l1 = 0, l2 = 0;
				int r1 = jwks_item_key_oct(it, &b1, &l1), r2 = jwks_item_key_oct(plain.item, &b2, &l2);
				same = same && r1 == r2 && l1 == l2 && (l1 == 0 || memcmp(b1, b2, l1) == 0);
			}
			if (!same)
				bad("extra-members", "import differs with and without foreign/unknown members");
		}
		lib_free_key(plain);
		ctx.count("probe:jwk_with_foreign_or_unknown_members");
	}
	(void)s;
}

static Owner make_owner(World &w, const Step &s, uint64_t salt)
{
	Ctx &ctx = w.ctx;
	Owner o;
	o.spec = s;
	o.kind = (int)s.I("kind") % 4;
	int size = (int)s.I("size");
	Rng kr(mix64(w.plan.rng, salt * 7919 + 1));
	switch (o.kind) {
	case 0:
		o.truth = key_gen_oct(kr, (size_t)(size < 0 ? 0 : size > 4096 ? 4096 : size));
		break;
	case 1:
		o.truth = key_rsa_pool(RSA_POOL_BITS[((size % N_RSA_POOL_BITS) + N_RSA_POOL_BITS) % N_RSA_POOL_BITS], (int)s.I("idx"));
		break;
	case 2:
		o.truth = key_gen_ec(EC_CRV[((size % N_EC_CRV) + N_EC_CRV) % N_EC_CRV]);
		o.exotic = ((size % N_EC_CRV) + N_EC_CRV) % N_EC_CRV >= 4;
		break;
	default:
		o.truth = key_gen_okp(OKP_CRV[((size % 2) + 2) % 2]);
	}
	JwkOpts opts;
	int attr = (int)s.I("attr");
	if (attr >= 1 && attr <= 3) {
		int a = (int)s.I("attr_alg");
		if (a <= JWT_ALG_NONE || a >= JWT_ALG_INVAL)
			a = JWT_ALG_HS256;
		opts.has_alg = true;
		opts.alg = ALGS[a].name;
		o.key_alg = a;
	} else if (attr == 4) {
		opts.has_alg = true;
		opts.alg = UNKNOWN_ALGS[(uint64_t)s.I("attr_alg") % ARRAY_LEN(UNKNOWN_ALGS)];
		o.key_alg = JWT_ALG_INVAL;
	}
	switch (s.I("kid")) {
	case 1:
		opts.has_kid = true;
		opts.kid = strf("kid-%lld", (long long)s.I("kidn"));
		break;
	case 2:
		opts.has_kid = true;
		opts.kid = "dup";
		break;
	case 3:
		opts.has_kid = true;
		opts.kid = "";
		break;
	case 4:
	case 5:
	case 6:
	case 7:
	case 8: {
		static const size_t lens[] = {255, 256, 257, 300, 2048};
		opts.has_kid = true;
		opts.kid = strf("kid-%lld-", (long long)s.I("kidn"));
		opts.kid.resize(lens[s.I("kid") - 4], 'k');
		break;
	}
	}
	switch (s.I("use")) {
	case 1:
		opts.use = "sig";
		break;
	case 2:
		opts.use = "enc";
		break;
	case 3:
		opts.use = "tls";
		break;
	}
	int64_t ops = s.I("ops");
	// entries that are not strings (a number ahead of everything, a null in the middle) name no operation: the ones around them count
	if (ops & 512)
		opts.key_ops.push_back("\x01" "7");
	for (size_t i = 0; i < ARRAY_LEN(KEY_OPS); i++) {
		if (ops & (1 << i))
			opts.key_ops.push_back(KEY_OPS[i]);
		if (i == 3 && (ops & 1024))
			opts.key_ops.push_back("\x01" "null");
	}
	if (ops & 256)
		opts.key_ops.push_back("customOp");
	opts.pad_zeros = o.kind == 1 || o.kind == 2 ? (int)s.I("pad") : 0;
	opts.ec_minimal = s.I("ecmin") != 0;
	opts.oct_pad = o.kind == 0 ? (int)s.I("octpad") : 0;
	if (opts.oct_pad)
		ctx.count("probe:oct_k_written_with_padding");
	JwkOpts plain = opts;
	int64_t ex = s.I("extra");
	if (ex & 1)
		opts.extra.push_back({"x5t", "\"abc\""});
	if (ex & 2)
		opts.extra.push_back({"k", "\"AAAA\""}); // oct member inside an asymmetric JWK
	if (ex & 4)
		opts.extra.push_back({"n", "\"AQAB\""}); // RSA member inside EC/OKP/oct
	if (ex & 8)
		opts.extra.push_back({"unknown_member", "{\"a\":[1,2,{\"b\":null}]}"});
	if (ex & 16)
		opts.extra.push_back({"crv", "\"P-256\""}); // curve inside RSA/oct
	if (ex & 32)
		opts.extra.push_back({"ext", "true"});
	// members that would change the meaning for this kty are not "foreign": drop them
	auto drop = [&](const char *name) {
		for (size_t i = 0; i < opts.extra.size();)
			if (opts.extra[i].first == name)
				opts.extra.erase(opts.extra.begin() + (long)i);
			else
				i++;
	};
	if (o.kind == 0)
		drop("k");
	if (o.kind == 1) {
		drop("n");
	}
	if (o.kind == 2 || o.kind == 3)
		drop("crv");
	if (o.kind == 3 || o.kind == 2) {
		// "d" decides private/public for EC and OKP; no foreign "d" is injected anywhere
	}
	o.broken = s.I("broken") != 0 && o.kind != 0;
	set_provider((int)s.I("loadprov") ? PROV_GNUTLS : PROV_OPENSSL);
	if (s.I("decoy")) {
		// a malformed key from someone else is read first on the same thread (library-level failure
		// states such as an error queue must not affect the import that follows)
		static const char *decoys[] = {
			"{\"kty\":\"EC\",\"crv\":\"P-256\",\"x\":\"AAAAAAAAAAAAAAAAAAAAAAAAAAAAAAAAAAAAAAAAAAE\",\"y\":\"AAAAAAAAAAAAAAAAAAAAAAAAAAAAAAAAAAAAAAAAAAE\"}",
			"{\"kty\":\"RSA\",\"n\":\"AQAB\",\"e\":\"AQAB\",\"d\":\"AQAB\",\"p\":\"AQAB\",\"q\":\"AQAB\",\"dp\":\"AQAB\",\"dq\":\"AQAB\",\"qi\":\"AQAB\"}",
			"{\"kty\":\"OKP\",\"crv\":\"Ed25519\",\"x\":\"AAAA\"}",
			"{\"kty\":\"EC\",\"crv\":\"P-999\",\"x\":\"AAAA\",\"y\":\"AAAA\"}"};
		jwk_set_t *d;
		{
			Armed a;
			d = jwks_create(decoys[(uint64_t)s.I("decoy") % ARRAY_LEN(decoys)]);
			if (d)
				jwks_free(d);
		}
		ctx.count("fault:malformed_key_read_before_import");
	}
	auto export_one = [&](JwkOpts &jo) -> std::string {
		if (!o.broken)
			return jwk_export(*o.truth, jo);
		json_t *j = jwk_export_json(*o.truth, jo);
		if (o.kind == 3)
			json_object_set_new(j, "crv", json_string(s.I("broken") % 2 ? "X25519" : "ed25519"));
		else if (o.kind == 1)
			json_object_del(j, jo.priv ? "dq" : "e");
		else
			json_object_del(j, "y");
		std::string t = json_text(j);
		json_decref(j);
		return t;
	};
	opts.priv = true;
	plain.priv = true;
	std::string jpriv = export_one(opts), jpriv_plain = export_one(plain);
	opts.priv = false;
	plain.priv = false;
	std::string jpub = export_one(opts), jpub_plain = export_one(plain);
	o.priv.truth = o.pub.truth = o.truth;
	if (ERR_peek_error()) {
		ctx.count("probe:key_import_with_entries_on_the_openssl_error_queue");
		if (s.I("late") || salt != s.uid)
			ctx.count("probe:key_import_in_mid_run_with_entries_on_the_openssl_error_queue");
	}
	bool imp_fired = false, imp_tainted = false;
	bool okp = lib_load_key(ctx, jpriv, o.priv, s.I("failalloc"), false, &imp_fired, &imp_tainted);
	bool oku = lib_load_key(ctx, jpub, o.pub);
	o.ok = okp && oku;
	if (imp_tainted) {
		// the failing request fell inside jansson's parser, which may hand back a damaged document without saying so
		// (known finding under C17): nobody may use this key, and nothing is judged about the import
		ctx.count("probe:key_import_under_alloc_fault_inside_jansson_not_judged");
		lib_free_key(o.priv);
		lib_free_key(o.pub);
		o.ok = false;
		ctx.logf("OWNER %s import under allocation fault inside the JSON parser: discarded", o.truth->label.c_str());
		return o;
	}
	ctx.logf("OWNER %s attr=%d key_alg=%s loadprov=%lld ok=%d/%d", o.truth->label.c_str(), attr, alg_name(o.key_alg), (long long)s.I("loadprov"), okp, oku);
	ctx.count("probe:keys_published:" + std::string(o.kind == 0 ? "oct" : o.kind == 1 ? "rsa" : o.kind == 2 ? "ec" : "okp"));
	if (opts.pad_zeros)
		ctx.count("probe:jwk_integers_zero_padded");
	if (opts.ec_minimal && o.kind == 2)
		ctx.count("probe:jwk_ec_minimal_length_coordinates");
	// the empty oct key is outside C08's quantifier (1-512 bytes); libjwt refuses it
	bool in_domain = !(o.kind == 0 && o.truth->oct.empty()) && !o.broken && !o.exotic;
	if (o.broken) {
		ctx.count("fault:owner_publishes_broken_key_document");
		if (okp || oku)
			ctx.violation("C07", "broken-jwk-not-flagged", o.truth->label, "a JWK with an unknown curve / incomplete private part / missing coordinate was imported without error");
	}
	if (in_domain && !o.ok && !imp_fired && (s.I("late") || salt != s.uid))
		// keys must stay importable and usable whatever provider is selected and whatever either provider did before
		ctx.violation("C12", "key-import-depends-on-history", strf("%s:%s", o.kind == 0 ? "oct" : o.kind == 1 ? "RSA" : o.kind == 2 ? "EC" : "OKP", prov_name((int)s.I("loadprov") ? 1 : 0)),
			      strf("well-formed key %s could not be imported in mid-run with %s selected: %s / %s", o.truth->label.c_str(), prov_name((int)s.I("loadprov") ? 1 : 0),
				   o.priv.item ? jwks_item_error_msg(o.priv.item) : "(no item)", o.pub.item ? jwks_item_error_msg(o.pub.item) : "(no item)"));
	if (in_domain && imp_fired && !okp) {
		// a reported failure under an injected fault is a legitimate outcome
		ctx.count("probe:key_import_failed_under_alloc_fault");
		lib_free_key(o.priv);
		lib_free_key(o.pub);
		return o;
	}
	if (in_domain) {
		opts.priv = true;
		check_c08(w, o, o.priv, opts, "private", s, jpriv_plain);
		opts.priv = false;
		check_c08(w, o, o.pub, opts, "public", s, jpub_plain);
		ctx.sig(strf("C08|%s|attr%d|kid%lld|use%lld|pad%d|min%d|ex%lld", o.truth->label.c_str(), attr, (long long)s.I("kid"),
			     (long long)s.I("use"), opts.pad_zeros, opts.ec_minimal, (long long)ex));
	}
	return o;
}

static void do_owner(World &w, const Step &s)
{
	w.owners.push_back(make_owner(w, s, s.uid));
}

// ---------------------------------------------------------------- parties
// Routes: how key and algorithm reach the object.
//   pre  = jwt_*_setkey(E, K) before anything else
//   cb   = what the callback does to its config: nothing / key+alg / key only / alg only / error
//  route  0: pre                      6: nothing at all
//         1: cb key+alg               7: pre, cb sets alg := none
//         2: cb key only              8: pre, cb re-selects the same key (key only)
//         3: cb alg only              9: pre, cb swaps in another owner's key (key only)
//         4: pre, cb does nothing    10: pre, cb sets alg := another algorithm
//         5: cb returns error        11: pre, cb swaps in another owner's key and sets an alg
struct RouteDef {
	int pre;
	int cb;     // 0 none, 1 noop, 2 key+alg, 3 key only, 4 alg only, 5 error
	int other;  // callback key comes from the second owner
	int algsel; // 0 = E, 1 = none, 2 = E2
};
static const RouteDef ROUTES[] = {{1, 0, 0, 0}, {0, 2, 0, 0}, {0, 3, 0, 0}, {0, 4, 0, 0}, {1, 1, 0, 0}, {0, 5, 0, 0},
				  {0, 0, 0, 0}, {1, 4, 0, 1}, {1, 3, 0, 0}, {1, 3, 1, 0}, {1, 4, 0, 2}, {1, 2, 1, 2}};
static const int N_ROUTES = (int)ARRAY_LEN(ROUTES);

static void do_party(World &w, const Step &s, bool checker)
{
	Ctx &ctx = w.ctx;
	Party p;
	p.is_checker = checker;
	p.route = (int)(((s.I("route") % N_ROUTES) + N_ROUTES) % N_ROUTES);
	RouteDef rd = ROUTES[p.route];
	p.prov = (int)s.I("prov") ? PROV_GNUTLS : PROV_OPENSSL;
	Owner *o = NULL, *o2 = NULL;
	int oi = -1, oi2 = -1;
	if (!w.owners.empty() && (rd.pre || rd.cb == 2 || rd.cb == 3)) {
		oi = (int)((uint64_t)s.I("owner") % w.owners.size());
		o = &w.owners[(size_t)oi];
		if (!o->ok && !(o->broken && o->priv.item && o->pub.item)) {
			o = NULL;
			oi = -1;
		}
		if (rd.other) {
			oi2 = (int)(((uint64_t)s.I("owner") + 1 + (uint64_t)s.I("exsel") % (w.owners.size() > 1 ? w.owners.size() - 1 : 1)) % w.owners.size());
			o2 = &w.owners[(size_t)oi2];
			if ((!o2->ok && !(o2->broken && o2->priv.item && o2->pub.item)) || oi2 == oi) {
				o2 = NULL;
				oi2 = -1;
			}
		}
	}
	if ((rd.pre || rd.cb == 2 || rd.cb == 3) && !o) {
		// no usable key material in this world: degrade to "nothing at all"
		p.route = 6;
		rd = ROUTES[6];
	}
	if (rd.other && !o2) {
		rd.other = 0; // no second owner: re-select the same key instead
	}
	p.form_priv = s.I("form") != 0;
	int E = (rd.pre || rd.cb == 2 || rd.cb == 4) ? choose_explicit(s, o) : JWT_ALG_NONE;
	Step s2 = s;
	s2.set("exsel", s.I("exsel") / 7 + 3);
	s2.set("explicit", -2);
	int E2 = choose_explicit(s2, o2 ? o2 : o);
	p.explicit_alg = E;
	auto item_of = [&](Owner *ow) -> const jwk_item_t * { return ow ? (p.form_priv ? ow->priv.item : ow->pub.item) : NULL; };
	set_provider(p.prov);
	{
		Armed a;
		if (checker)
			p.chk = jwt_checker_new();
		else
			p.bld = jwt_builder_new();
	}
	if (!p.chk && !p.bld)
		return;
	p.cb.reset(new CbCtx());

	// ---- model state while the configuration is applied
	bool mk = false;  // a key is in force
	int mowner = -1;  // whose
	int mkalg = JWT_ALG_NONE;
	int malg = JWT_ALG_NONE;
	int alg_from_owner = -1; // builder: the owner whose alg attribute was pre-resolved into config.alg

	if (rd.pre)
		p.refs.push_back(oi);
	if (rd.cb == 2 || rd.cb == 3)
		p.refs.push_back(rd.other ? oi2 : oi);
	if (rd.pre) {
		const jwk_item_t *item = item_of(o);
		int key_alg = o->key_alg;
		bool is_priv_item = p.form_priv || o->kind == 0;
		int r;
		{
			Armed a;
			r = checker ? jwt_checker_setkey(p.chk, (jwt_alg_t)E, item) : jwt_builder_setkey(p.bld, (jwt_alg_t)E, item);
		}
		bool adm = admissible(true, key_alg, E);
		if (!checker && !is_priv_item)
			adm = false; // signing requires a private key
		bool dont_care = key_alg == JWT_ALG_INVAL || E >= JWT_ALG_INVAL || E < 0;
		// a document broken before the private part was read reports the item as public: the builder's
		// private-key requirement then decides, which the table does not cover
		if (!checker && o->broken)
			dont_care = true;
		ctx.logf("%s route=%d setkey(%s, %s key_alg=%s %s) -> %d (model admits=%d)", checker ? "VERIFIER" : "ISSUER", p.route, alg_name(E), o->truth->label.c_str(),
			 alg_name(key_alg), p.form_priv ? "priv" : "pub", r, adm);
		if (!dont_care && (r == 0) != adm) {
			std::string row = row_class(true, key_alg, E);
			if (!checker && !is_priv_item)
				row += "/public-key";
			ctx.violation("C02", "setkey-table", strf("%s:%s:%s", checker ? "checker" : "builder", row.c_str(), r == 0 ? "admitted" : "refused"),
				      strf("jwt_%s_setkey(alg=%s, key %s with alg attribute %s, %s) returned %d; the documented table says %s", checker ? "checker" : "builder", alg_name(E),
					   o->truth->label.c_str(), alg_name(key_alg), p.form_priv ? "private" : "public", r, adm ? "accept" : "refuse"));
		}
		ctx.sig(strf("C02|setkey|%s|%s|%d", checker ? "c" : "b", row_class(true, key_alg, E), r == 0));
		if (r == 0) {
			mk = true;
			mowner = oi;
			mkalg = key_alg;
			malg = E;
		} else {
			// a failed setkey leaves the previous (empty) configuration in force
			if (checker)
				jwt_checker_error_clear(p.chk);
			else
				jwt_builder_error_clear(p.bld);
		}
	} else if (s.I("route") % N_ROUTES == 6 || rd.cb == 0) {
		// also exercise the NULL-key rows of the table once in a while
		if (s.I("exsel") % 5 == 0) {
			int r = checker ? jwt_checker_setkey(p.chk, (jwt_alg_t)E2, NULL) : jwt_builder_setkey(p.bld, (jwt_alg_t)E2, NULL);
			if (r == 0 && E2 != JWT_ALG_NONE && E2 < JWT_ALG_INVAL)
				ctx.violation("C02", "setkey-table", strf("%s:alg-A/NULL:admitted", checker ? "checker" : "builder"),
					      strf("jwt_%s_setkey(alg=%s, NULL) returned 0", checker ? "checker" : "builder", alg_name(E2)));
			if (checker)
				jwt_checker_error_clear(p.chk);
			else
				jwt_builder_error_clear(p.bld);
		}
	}
	// the builder resolves the algorithm from the key before the callback runs
	if (!checker && malg == JWT_ALG_NONE && mk) {
		malg = mkalg;
		alg_from_owner = mowner;
	}
	Party::Eff after_pre;
	after_pre.has_key = mk;
	after_pre.owner = mk ? mowner : -1;
	after_pre.key_alg = mk ? mkalg : JWT_ALG_NONE;
	after_pre.eff_explicit = malg;
	if (rd.cb) {
		Owner *ko = rd.other ? o2 : o;
		int koi = rd.other ? oi2 : oi;
		int cbalg = rd.algsel == 1 ? JWT_ALG_NONE : rd.algsel == 2 ? E2 : E;
		p.cb->mode = rd.cb == 1 ? 0 : rd.cb == 2 ? 1 : rd.cb == 3 ? 2 : rd.cb == 4 ? 3 : 5;
		p.cb->key = item_of(ko);
		p.cb->alg = cbalg;
		if (checker)
			jwt_checker_setcb(p.chk, world_cb, p.cb.get());
		else
			jwt_builder_setcb(p.bld, world_cb, p.cb.get());
		switch (rd.cb) {
		case 2:
			mk = ko != NULL;
			mowner = koi;
			mkalg = ko ? ko->key_alg : JWT_ALG_NONE;
			malg = cbalg;
			alg_from_owner = -1;
			break;
		case 3:
			mk = ko != NULL;
			mowner = koi;
			mkalg = ko ? ko->key_alg : JWT_ALG_NONE;
			break;
		case 4:
			malg = cbalg;
			alg_from_owner = -1;
			break;
		case 5:
			p.reject_all = true;
			break;
		}
		if (s.I("ctxupd")) {
			// "Calling this with a NULL cb and a new ctx after already setting the callback updates the ctx":
			// the callback stays installed
			int r = checker ? jwt_checker_setcb(p.chk, NULL, p.cb.get()) : jwt_builder_setcb(p.bld, NULL, p.cb.get());
			void *g = checker ? jwt_checker_getctx(p.chk) : jwt_builder_getctx(p.bld);
			ctx.count("probe:callback_ctx_only_update");
			if (r != 0 || g != p.cb.get())
				ctx.violation("C13", "ctx-update", checker ? "checker" : "builder", strf("setcb(NULL, ctx) on an object with a callback returned %d, getctx %s", r, g == p.cb.get() ? "ok" : "differs"));
		}
		ctx.logf("%s route=%d cb(mode=%d key=%s alg=%s)%s", checker ? "VERIFIER" : "ISSUER", p.route, p.cb->mode, ko && (rd.cb == 2 || rd.cb == 3) ? ko->truth->label.c_str() : "-",
			 alg_name(cbalg), s.I("ctxupd") ? " +ctx-only update" : "");
	}
	// the builder resolves the algorithm from the callback's key when the callback left it at none
	if (!checker && malg == JWT_ALG_NONE && mk) {
		malg = mkalg;
		alg_from_owner = mowner;
	}
	p.has_key = mk;
	p.owner = mk ? mowner : -1;
	p.key_alg = mk ? mkalg : JWT_ALG_NONE;
	p.eff_explicit = malg;
	// an algorithm that was resolved from one key and then applied to another key swapped in by
	// the callback: the statement does not say whose pin that is -> admission/pin not asserted
	p.pin_dontcare = !checker && mk && alg_from_owner >= 0 && alg_from_owner != mowner;
	if (checker && s.I("selective") && rd.pre && (rd.cb == 2 || rd.cb == 3 || rd.cb == 4)) {
		p.selective = true;
		p.effA.has_key = p.has_key;
		p.effA.owner = p.owner;
		p.effA.key_alg = p.key_alg;
		p.effA.eff_explicit = p.eff_explicit;
		p.effB = after_pre;
		ctx.count("probe:verifiers_whose_callback_overrides_for_some_tokens_only");
	}
	if (p.route == 6)
		ctx.logf("%s route=6 (no key)", checker ? "VERIFIER" : "ISSUER");
	if (checker && s.I("timeoff")) {
		// every claim check switched off (the documented -1): nothing else about the checker may change with it
		Armed a;
		jwt_checker_time_leeway(p.chk, JWT_CLAIM_EXP, -1);
		jwt_checker_time_leeway(p.chk, JWT_CLAIM_NBF, -1);
		ctx.count("probe:verifiers_with_every_claim_check_switched_off");
	}
	if (checker && s.I("expect")) {
		p.expect = (int)s.I("expect") & 7;
		// (with allocation faults in the run: one request of this configuration phase may fail; the calls report it
		// or not, the checker must stay safe to use either way)
		Armed a(s.I("failalloc"));
		if (s.I("failalloc"))
			ctx.count("fault:alloc_fail_while_configuring_expectations");
		if (p.expect & 1)
			jwt_checker_claim_set(p.chk, JWT_CLAIM_ISS, "issuer-x");
		if (p.expect & 2)
			jwt_checker_claim_set(p.chk, JWT_CLAIM_SUB, "someone");
		if (p.expect & 4)
			jwt_checker_claim_set(p.chk, JWT_CLAIM_AUD, "audience-1");
	}
	if (!checker) {
		// issuer content: header and claim trees set through the whole-object JSON setter
		Rng hr(mix64(0x4844, (uint64_t)s.I("hdr_seed"))), cr(mix64(0x434c, (uint64_t)s.I("claims_seed")));
		p.hdr_in = gen_json_object(hr, 3, 3);
		p.claims_in = gen_json_object(cr, 4, 6);
		for (const char *k : {"alg", "exp", "nbf", "iat"}) {
			json_object_del(p.hdr_in, k);
			json_object_del(p.claims_in, k);
		}
		json_object_del(p.hdr_in, "typ");
		if (s.I("typ"))
			json_object_set_new(p.hdr_in, "typ", json_string("custom+jwt"));
		p.iat = s.I("iat") != 0;
		std::string ht = json_text(p.hdr_in), ct = json_text(p.claims_in);
		jwt_value_t jv;
		Armed a;
		jv_set_json(&jv, NULL, ht.c_str());
		int r1 = jwt_builder_header_set(p.bld, &jv);
		jv_set_json(&jv, NULL, ct.c_str());
		int r2 = jwt_builder_claim_set(p.bld, &jv);
		jwt_builder_enable_iat(p.bld, p.iat);
		p.exp_off = s.I("exp_off");
		if (p.exp_off > 0)
			jwt_builder_time_offset(p.bld, JWT_CLAIM_EXP, (time_t)p.exp_off);
		ctx.logf("ISSUER content hdr=%s claims=%s rc=%d/%d", show(ht, 80).c_str(), show(ct, 80).c_str(), r1, r2);
	}
	(checker ? w.verifiers : w.issuers).push_back(std::move(p));
}

// RECONFIG: jwt_checker_setkey again on a live checker (only for verifiers configured by setkey
// alone). An admitted pair replaces the configuration; a refused one leaves the previous key and
// algorithm in force, which the following deliveries check.
static void do_reconfig(World &w, const Step &s)
{
	Ctx &ctx = w.ctx;
	if (w.verifiers.empty() || w.owners.empty())
		return;
	if (s.I("issuer")) {
		// refused probe on a builder: jwt_builder_setkey(alg, NULL)
		if (w.issuers.empty())
			return;
		Party &p = w.issuers[(uint64_t)s.I("to") % w.issuers.size()];
		if (!p.bld || ROUTES[p.route].cb != 0) {
			ctx.logf("RECONFIG skipped (issuer uses a callback)");
			return;
		}
		int E = 1 + (int)((uint64_t)s.I("exsel") % 14);
		set_provider(p.prov);
		int r;
		{
			Armed a;
			r = jwt_builder_setkey(p.bld, (jwt_alg_t)E, NULL);
		}
		ctx.logf("RECONFIG issuer setkey(%s, NULL) -> %d", alg_name(E), r);
		ctx.count("fault:refused_setkey_on_configured_party");
		if (r == 0)
			ctx.violation("C02", "setkey-table", strf("builder:%s:admitted:reconfig", row_class(false, JWT_ALG_NONE, E)),
				      strf("jwt_builder_setkey(alg=%s, NULL key) on a configured builder returned 0; the documented table says refuse", alg_name(E)));
		jwt_builder_error_clear(p.bld); // previous configuration stays in force
		return;
	}
	Party &v = w.verifiers[(uint64_t)s.I("to") % w.verifiers.size()];
	if (!v.chk || ROUTES[v.route].cb != 0) {
		ctx.logf("RECONFIG skipped (verifier uses a callback)");
		return;
	}
	int oi = (int)((uint64_t)s.I("owner") % w.owners.size());
	Owner *o = &w.owners[(size_t)oi];
	bool clear = s.I("clear") != 0 || !o->ok;
	bool form_priv = s.I("form") != 0;
	const jwk_item_t *item = clear ? NULL : (form_priv ? o->priv.item : o->pub.item);
	int key_alg = clear ? JWT_ALG_NONE : o->key_alg;
	int E = clear ? JWT_ALG_NONE : choose_explicit(s, o);
	if (s.I("clear") == 2) {
		E = 1 + (int)((uint64_t)s.I("exsel") % 14); // algorithm without a key
		ctx.count("fault:refused_setkey_on_configured_party");
	}
	set_provider(v.prov);
	int r;
	{
		Armed a;
		r = jwt_checker_setkey(v.chk, (jwt_alg_t)E, item);
	}
	bool adm = admissible(item != NULL, key_alg, E);
	bool dont_care = key_alg == JWT_ALG_INVAL || E >= JWT_ALG_INVAL || E < 0;
	ctx.logf("RECONFIG verifier setkey(%s, %s key_alg=%s) -> %d (model admits=%d)", alg_name(E), item ? o->truth->label.c_str() : "NULL", alg_name(key_alg), r, adm);
	ctx.count("fault:verifier_reconfigured_mid_run");
	if (!dont_care && (r == 0) != adm)
		ctx.violation("C02", "setkey-table", strf("checker:%s:%s:reconfig", row_class(item != NULL, key_alg, E), r == 0 ? "admitted" : "refused"),
			      strf("jwt_checker_setkey(alg=%s, key %s with alg attribute %s) on a configured checker returned %d; the documented table says %s", alg_name(E),
				   item ? o->truth->label.c_str() : "NULL", alg_name(key_alg), r, adm ? "accept" : "refuse"));
	if (r == 0) {
		v.has_key = item != NULL;
		v.owner = item ? oi : -1;
		v.key_alg = key_alg;
		v.eff_explicit = E;
		v.form_priv = form_priv;
		v.route = item ? 0 : 6;
		v.refs.clear(); // setkey replaced whatever the checker pointed to
		if (item)
			v.refs.push_back(oi);
	} else
		jwt_checker_error_clear(v.chk); // previous configuration stays in force
}

// ROTATE: an owner retires its key. Only owners whose key is held by setkey-configured verifiers
// (no callbacks, no issuers) rotate, so that nothing keeps a pointer into the freed key sets.
static void do_rotate(World &w, const Step &s)
{
	Ctx &ctx = w.ctx;
	if (w.owners.empty())
		return;
	size_t oi = (uint64_t)s.I("owner") % w.owners.size();
	Owner &old = w.owners[oi];
	auto refers = [&](const Party &p) { return std::find(p.refs.begin(), p.refs.end(), (int)oi) != p.refs.end(); };
	for (auto &p : w.issuers)
		if (refers(p)) {
			ctx.logf("ROTATE skipped (an issuer points to the key)");
			return;
		}
	for (auto &p : w.verifiers)
		if (refers(p) && (ROUTES[p.route].cb != 0 || p.owner != (int)oi || !p.has_key)) {
			ctx.logf("ROTATE skipped (a verifier points to the key in a way setkey alone cannot re-point)");
			return;
		}
	std::vector<Party *> holders;
	for (auto &p : w.verifiers)
		if (p.owner == (int)oi && p.has_key)
			holders.push_back(&p);
	// the verifiers let go of the old key first, then the key sets are freed
	for (Party *p : holders) {
		set_provider(p->prov);
		Armed a;
		jwt_checker_setkey(p->chk, JWT_ALG_NONE, NULL);
	}
	std::string old_label = old.truth->label;
	// released in reverse order of allocation, as a stack-like teardown would
	lib_free_key(old.pub);
	lib_free_key(old.priv);
	Step nspec = old.spec;
	if (s.I("weaken")) {
		int kind = (int)nspec.I("kind");
		int64_t wsel = s.I("weaken");
		if (kind == 0)
			nspec.set("size", wsel % 5 == 0 ? 31 : wsel % 5 == 1 ? 16 : wsel % 32);
		else if (kind == 1)
			nspec.set("size", wsel % 2 ? 1 : 3); // 1024 / 2047 bits
		else if (kind == 2)
			nspec.set("size", (nspec.I("size") + 1 + wsel % 3) % 4); // another curve under the same alg attribute
		nspec.set("broken", 0);
		ctx.count("fault:key_rotated_to_a_key_below_the_floor");
	}
	Owner fresh = make_owner(w, nspec, s.uid + 100000);
	w.owners[oi] = std::move(fresh);
	Owner &nw = w.owners[oi];
	ctx.count("fault:key_rotation_with_old_tokens_in_flight");
	ctx.logf("ROTATE owner %zu: %s retired, new key loaded (ok=%d), %zu verifier(s) re-pointed", oi, old_label.c_str(), nw.ok, holders.size());
	for (Party *p : holders) {
		set_provider(p->prov);
		const jwk_item_t *item = nw.ok ? (p->form_priv ? nw.priv.item : nw.pub.item) : NULL;
		int r = 1;
		if (item) {
			Armed a;
			r = jwt_checker_setkey(p->chk, (jwt_alg_t)p->eff_explicit, item);
		}
		if (r == 0) {
			p->key_alg = nw.key_alg;
		} else {
			jwt_checker_error_clear(p->chk);
			p->has_key = false;
			p->owner = -1;
			p->eff_explicit = JWT_ALG_NONE;
			p->key_alg = JWT_ALG_NONE;
			p->route = 6;
			p->refs.clear();
		}
	}
	// tokens of the retired key stay in the pool: they no longer belong to this owner's current key
	for (auto &m : w.pool)
		if (m.owner == (int)oi)
			m.owner = -2;
}

static const KeyTruth *party_truth(World &w, const Party &p)
{
	if (!p.has_key || p.owner < 0)
		return NULL;
	return w.owners[(size_t)p.owner].truth.get();
}

// ---------------------------------------------------------------- ISSUE
static void do_issue_once(World &w, const Step &s, bool keep);

static void do_issue(World &w, const Step &s)
{
	int64_t burst = s.I("burst");
	if (burst > 2 && !w.issuers.empty()) {
		// (a private operation with a 12288-bit modulus takes a fifth of a second: no bursts with those)
		const KeyTruth *bk = party_truth(w, w.issuers[(uint64_t)s.I("issuer") % w.issuers.size()]);
		if (bk && bk->kty == K_RSA && bk->bits > 8192)
			burst = 2;
	}
	for (int64_t b = 1; b < burst; b++)
		do_issue_once(w, s, false);
	do_issue_once(w, s, true);
}

static void do_issue_once(World &w, const Step &s, bool keep)
{
	Ctx &ctx = w.ctx;
	if (w.issuers.empty())
		return;
	int ii = (int)((uint64_t)s.I("issuer") % w.issuers.size());
	Party &p = w.issuers[(size_t)ii];
	if (!p.bld)
		return;
	set_provider(p.prov);
	const KeyTruth *k = party_truth(w, p);
	bool priv_ok = k && (p.form_priv || k->kty == K_OCT);
	bool adm = admissible(p.has_key, p.key_alg, p.eff_explicit) && !p.reject_all;
	if (p.has_key && !priv_ok)
		adm = false;
	int pin = pinned_alg(p.has_key, p.key_alg, p.eff_explicit);
	const AlgInfo *pa = pin > 0 ? alg_by_id(pin) : NULL;
	int64_t t0 = g_clock.now();
	int64_t gen_fail_at = keep ? s.I("failalloc") : 0;
	if (keep && s.I("failend") > 0) {
		int64_t save = g_clock.base;
		GenerateOut dry = lib_generate(ctx, p.bld, false);
		g_clock.base = save;
		if (!dry.ok)
			jwt_builder_error_clear(p.bld);
		gen_fail_at = (int64_t)dry.alloc_reqs - s.I("failend") + 1;
		if (gen_fail_at < 1)
			gen_fail_at = 0;
		ctx.count("probe:alloc_fault_counted_from_the_end_of_the_call");
	}
	GenerateOut go = lib_generate(ctx, p.bld, true, gen_fail_at, keep && s.I("failfrom") != 0);
	bool faulted = go.faults_fired > 0;
	if (go.tainted) {
		// the failing request fell inside json_dumps / a jansson parse (known finding under C17): not judged, not delivered
		ctx.count("probe:issue_under_alloc_fault_inside_jansson_not_judged");
		if (!go.ok)
			jwt_builder_error_clear(p.bld);
		return;
	}
	if (faulted)
		ctx.count("probe:issue_judged_under_alloc_fault");
	ctx.logf("ISSUE issuer=%d prov=%s key=%s pin=%s adm=%d -> %s msg='%s'", ii, prov_name(p.prov), k ? k->label.c_str() : "none",
		 pin > 0 ? alg_name(pin) : "-", adm, go.ok ? show(go.token, 60).c_str() : "NULL", go.msg.c_str());
	if (!go.ok)
		jwt_builder_error_clear(p.bld);
	TokenParts tp;
	if (go.ok)
		token_split(go.token, tp);
	const AlgInfo *ha = go.ok && tp.alg_is_string ? alg_by_name(tp.alg) : NULL;
	std::string cell = strf("%s/%s/route%d", k ? k->label.c_str() : "nokey", pin > 0 ? alg_name(pin) : "-", p.route);
	ctx.sig(strf("ISSUE|%s|%s|ok%d", cell.c_str(), prov_name(p.prov), go.ok));
	if (go.ok && p.has_key && p.owner >= 0 && w.owners[(size_t)p.owner].broken)
		ctx.violation("C09", "sign-with-unusable-key", k ? k->label : "?", strf("generate succeeded with a key item the import had flagged as bad: %s", show(go.token, 160).c_str()));
	if (go.ok) {
		bool third_empty = tp.has2 && tp.seg[2].empty();
		bool hdr_none = tp.alg_is_string && tp.alg == "none";
		{
			// C10 shape: exactly three parts, each unpadded base64url (strict reading: URL alphabet only, no '=',
			// unused bits zero) of a JSON object, a JSON object and the raw signature - for every key type, size and
			// algorithm the world issues with (signature lengths that are and are not multiples of three)
			std::string d0, d1, d2;
			bool shape = tp.dots == 2 && b64url_decode_strict(tp.seg[0], d0) && b64url_decode_strict(tp.seg[1], d1) && (tp.seg[2].empty() || b64url_decode_strict(tp.seg[2], d2));
			if (!shape)
				ctx.violation("C10", "token-shape", strf("%s:%s", ha ? ha->name : "?", !tp.seg[2].empty() && !b64url_decode_strict(tp.seg[2], d2) ? "signature-part" : "header-or-payload-part"),
					      strf("generated token is not three unpadded base64url parts: %s", show(go.token, 400).c_str()));
			else if (!tp.hdr_ok || !tp.pay_ok || !json_is_object(tp.hdr) || !json_is_object(tp.pay))
				ctx.violation("C10", "token-shape", "not-json-objects", strf("header or payload of the generated token is not a JSON object: %s", show(go.token, 400).c_str()));
			if (ha)
				ctx.sig(strf("C10shape|%s|%zu", ha->name, d2.size() % 3));
			// C10 content: the header is the builder's headers with alg forced and typ defaulting to JWT on signed tokens,
			// the payload the builder's claims plus iat / exp - with or without an allocation failure on the way
			if (shape && tp.hdr_ok && tp.pay_ok && p.hdr_in && p.claims_in && ha) {
				json_t *eh = json_deep_copy(p.hdr_in), *ec = json_deep_copy(p.claims_in);
				json_object_set_new(eh, "alg", json_string(ha->name));
				if (ha->fam != FAM_NONE && !json_object_get(eh, "typ"))
					json_object_set_new(eh, "typ", json_string("JWT"));
				if (p.iat)
					json_object_set_new(ec, "iat", json_integer(t0));
				if (p.exp_off > 0)
					json_object_set_new(ec, "exp", json_integer(t0 + p.exp_off));
				if (!json_equal(tp.hdr, eh))
					ctx.violation("C10", "token-header-content", strf("%s%s", ha->name, faulted ? ":under-alloc-fault" : ""),
						      strf("header of the generated token is %s, the builder was told %s", show(json_text(tp.hdr), 300).c_str(), show(json_text(eh), 300).c_str()));
				if (!json_equal(tp.pay, ec))
					ctx.violation("C10", "token-payload-content", strf("%s%s", ha->name, faulted ? ":under-alloc-fault" : ""),
						      strf("payload of the generated token is %s, the builder was told %s", show(json_text(tp.pay), 300).c_str(), show(json_text(ec), 300).c_str()));
				json_decref(eh);
				json_decref(ec);
			}
		}
		if (p.has_key) {
			// C03: a builder that was given a key never emits an unsigned token
			if (!tp.has2 || third_empty || hdr_none || !tp.alg_is_string)
				ctx.violation("C03", "builder-unsigned-with-key", strf("route%d:%s", p.route, p.eff_explicit != JWT_ALG_NONE ? "explicit-alg" : p.key_alg != JWT_ALG_NONE ? "key-alg" : "no-alg"),
					      strf("builder holding key %s (route %d, explicit %s, key alg %s) emitted unsigned token %s", k ? k->label.c_str() : "?", p.route,
						   alg_name(p.eff_explicit), alg_name(p.key_alg), show(go.token, 200).c_str()));
			// C02: the alg in the emitted header is the pinned one; never another family
			if (pa && tp.alg_is_string && tp.alg != pa->name)
				ctx.violation("C02", "builder-alg", strf("emitted:%s:pinned:%s", tp.alg.c_str(), pa->name),
					      strf("builder pinned to %s emitted header alg %s", pa->name, tp.alg.c_str()));
			if (!pa && !hdr_none)
				ctx.violation("C02", "builder-no-pin", strf("emitted:%s:route%d", tp.alg.c_str(), p.route),
					      strf("builder with key %s but no valid pinned algorithm (explicit %s, key alg %s) emitted a token with alg %s", k ? k->label.c_str() : "?",
						   alg_name(p.eff_explicit), alg_name(p.key_alg), tp.alg.c_str()));
			if (ha && ha->fam != FAM_NONE && k && !key_family_ok(*k, *ha))
				ctx.violation("C02", "builder-family", strf("%s-with-%s", ha->name, k->kty == K_OCT ? "oct" : k->kty == K_RSA ? "RSA" : k->kty == K_EC ? "EC" : "OKP"),
					      strf("builder produced a %s token with a key of another family (%s)", ha->name, k->label.c_str()));
			else if (ha && ha->fam != FAM_NONE && k && !key_strength_ok(*k, *ha))
				ctx.violation("C09", "sign-below-floor", strf("%s:%s", ha->name, k->label.c_str()),
					      strf("signing succeeded with %s and key %s, below the floor", ha->name, k->label.c_str()));
			if (!adm && !p.pin_dontcare)
				ctx.violation("C02", "builder-inadmissible", strf("route%d:%s%s", p.route, row_class(p.has_key, p.key_alg, p.eff_explicit), priv_ok ? "" : "/public-key"),
					      strf("builder generated a token although its key/alg pair is outside the setkey table or the key is public-only (key %s, explicit %s, key alg %s)",
						   k ? k->label.c_str() : "?", alg_name(p.eff_explicit), alg_name(p.key_alg)));
			// the signature must be valid under the ground-truth key (C05 first half)
			if (ha && ha->fam != FAM_NONE && k && key_family_ok(*k, *ha) && !third_empty && !ref_sig_valid(*k, *ha, tp.signing_input, tp.seg[2]))
				ctx.violation("C12", "signature-not-accepted-by-other-provider", strf("%s:%s", ha->name, prov_name(p.prov)),
					      strf("a token generated with %s on %s is rejected by the OpenSSL reference verifier (providers must accept each other's signatures): %s", k->label.c_str(),
						   prov_name(p.prov), show(go.token, 300).c_str()));
			if (ha && ha->fam != FAM_NONE && k && key_family_ok(*k, *ha) && !third_empty && !ref_sig_valid(*k, *ha, tp.signing_input, tp.seg[2]))
				ctx.violation("C05", "generated-signature-invalid", strf("%s:%s", ha->name, prov_name(p.prov)),
					      strf("token generated with %s on %s does not carry a valid signature per the reference: %s", k->label.c_str(), prov_name(p.prov), show(go.token, 300).c_str()));
		} else {
			// C03: a builder without a key emits only alg-none tokens ending in an empty third segment
			if (!hdr_none || !third_empty || go.token.empty() || go.token.back() != '.')
				ctx.violation("C03", "builder-nokey-shape", strf("route%d", p.route),
					      strf("builder without key emitted %s", show(go.token, 200).c_str()));
			if (!adm)
				ctx.violation("C02", "builder-inadmissible", strf("route%d:%s", p.route, row_class(false, JWT_ALG_NONE, p.eff_explicit)),
					      strf("builder without key but with algorithm %s generated %s", alg_name(p.eff_explicit), show(go.token, 120).c_str()));
		}
		Msg m;
		m.token = go.token;
		m.owner = p.has_key ? p.owner : -1;
		m.orig_owner = m.owner;
		m.alg = ha ? ha->id : JWT_ALG_NONE;
		m.from_builder = true;
		m.issuer = ii;
		m.prov = p.prov;
		m.issued_at = t0;
		m.exp_at = p.exp_off > 0 ? t0 + p.exp_off : 0;
		m.unsigned_tok = !p.has_key;
		if (keep)
			w.pool.push_back(m);
		else
			ctx.count("probe:burst_signatures");
		// ECDSA short-coordinate probes
		if (ha && ha->fam == FAM_ES && tp.has2) {
			std::string sig;
			if (b64_decode_lenient(tp.seg[2], sig) && sig.size() % 2 == 0 && !sig.empty()) {
				size_t wd = sig.size() / 2;
				bool rs = sig[0] == 0, ss = sig[wd] == 0;
				if (rs)
					ctx.count("probe:ecdsa_short_r");
				if (ss)
					ctx.count("probe:ecdsa_short_s");
				if (rs && ss)
					ctx.count("probe:ecdsa_short_r_and_s");
				if (wd == 66)
					ctx.count("probe:ecdsa_p521_66_byte_width");
			}
		}
		// C12: byte-identical tokens for the deterministic algorithms
		if (w.bias == "C12" && ha && k && (ha->fam == FAM_HS || ha->fam == FAM_RS || ha->fam == FAM_ED) &&
		    provider_supports(PROV_GNUTLS, *ha, *k)) {
			set_provider(1 - p.prov);
			int64_t save = g_clock.base;
			GenerateOut g2 = lib_generate(ctx, p.bld);
			g_clock.base = save;
			set_provider(p.prov);
			if (!g2.ok)
				jwt_builder_error_clear(p.bld);
			ctx.count("probe:deterministic_alg_generated_under_both_providers");
			if (!g2.ok || g2.token != go.token)
				ctx.violation("C12", "deterministic-token-differs", strf("%s", ha->name),
					      strf("%s token for the same builder at the same instant differs between providers: %s=%s other=%s", ha->name, prov_name(p.prov),
						   show(go.token, 200).c_str(), g2.ok ? show(g2.token, 200).c_str() : ("NULL:" + g2.msg).c_str()));
		}
	} else {
		// C05 completeness: usable private/symmetric key + admissible algorithm => a token
		bool usable = p.has_key && !(p.owner >= 0 && w.owners[(size_t)p.owner].broken) && adm && !p.pin_dontcare && pa && k && key_family_ok(*k, *pa) && key_strength_ok(*k, *pa) && provider_supports(p.prov, *pa, *k);
		if (usable && !faulted)
			ctx.violation("C05", "generate-failed", strf("%s:%s:%s", pa->name, k->label.c_str(), prov_name(p.prov)),
				      strf("jwt_builder_generate returned NULL ('%s') for usable key %s and admissible algorithm %s on %s", go.msg.c_str(), k->label.c_str(), pa->name,
					   prov_name(p.prov)));
		if (!p.has_key && adm && !p.reject_all && !faulted)
			ctx.violation("C03", "builder-nokey-failed", strf("route%d", p.route), strf("builder without key failed to generate an alg-none token: '%s'", go.msg.c_str()));
	}
}

static void do_refissue(World &w, const Step &s)
{
	Ctx &ctx = w.ctx;
	if (w.owners.empty())
		return;
	size_t oi = (uint64_t)s.I("owner") % w.owners.size();
	int forced_alg = -1;
	if (s.has("forv") && !w.verifiers.empty()) {
		size_t fvi = (uint64_t)s.I("forv") % w.verifiers.size();
		if (s.I("forowner"))
			for (size_t j = 0; j < w.verifiers.size(); j++) {
				size_t c = (fvi + j) % w.verifiers.size();
				if (w.verifiers[c].has_key && w.verifiers[c].owner == (int)oi) {
					fvi = c;
					break;
				}
			}
		Party &fv = w.verifiers[fvi];
		int pin = pinned_alg(fv.has_key, fv.key_alg, fv.eff_explicit);
		if (fv.has_key && fv.owner >= 0 && pin > 0 && key_family_ok(*w.owners[(size_t)fv.owner].truth, ALGS[pin])) {
			oi = (size_t)fv.owner;
			forced_alg = pin;
		}
	}
	Owner &o = w.owners[oi];
	Rng cr(mix64(0x5245, (uint64_t)s.I("claims_seed")));
	json_t *claims = gen_json_object(cr, 2, 4);
	for (const char *k : {"exp", "nbf"})
		json_object_del(claims, k);
	if (w.bias == "C06") {
		// registered claims of every JSON type: the checker may hold expectations for them
		static const char *vals[] = {"\"issuer-x\"", "\"someone\"", "\"audience-1\"", "5", "null", "true", "[\"audience-1\",\"b\"]", "{\"a\":1}", "1.5", "\"\""};
		for (const char *k : {"iss", "sub", "aud"})
			if (cr.chance(2, 3)) {
				json_t *v = json_loads(vals[cr.below(ARRAY_LEN(vals))], JSON_DECODE_ANY, NULL);
				json_object_set_new(claims, k, v);
			}
	}
	std::string pay = json_text(claims);
	json_decref(claims);
	Msg m;
	m.owner = (int)oi;
	if (s.I("unsigned")) {
		ref_make_token("{\"alg\":\"none\"}", pay, NULL, NULL, m.token);
		m.owner = -1;
		m.unsigned_tok = true;
		m.alg = JWT_ALG_NONE;
	} else {
		std::vector<int> nat = natural_algs(o.kind, o.truth->kty == K_EC ? crv_idx(o.truth->crv) : 0);
		int a = nat[(uint64_t)s.I("algsel") % nat.size()];
		if (o.key_alg > JWT_ALG_NONE && o.key_alg < JWT_ALG_INVAL && key_family_ok(*o.truth, ALGS[o.key_alg]) && (s.I("algsel") & 8) == 0)
			a = o.key_alg;
		if (forced_alg > 0)
			a = forced_alg;
		const AlgInfo &ai = ALGS[a];
		std::string hdr = strf("{\"alg\":\"%s\",\"typ\":\"JWT\"}", ai.name);
		if (!ref_make_token(hdr, pay, o.truth.get(), &ai, m.token)) {
			ctx.logf("REFISSUE owner=%zu alg=%s: reference cannot sign", oi, ai.name);
			return;
		}
		m.alg = a;
	}
	m.orig_owner = m.owner;
	m.issued_at = g_clock.now();
	ctx.logf("REFISSUE owner=%zu alg=%s -> %s", oi, alg_name(m.alg), show(m.token, 60).c_str());
	w.pool.push_back(m);
}

// ---------------------------------------------------------------- DELIVER / GARBAGE
static void judge_delivery(World &w, Party &v, int vi, const std::string &tok, const Msg *src, bool pristine, bool destroys, bool encoding_level,
			   const std::string &faults_in, int64_t fail_at = 0, bool fail_from = false, bool cb_acts = true, bool noclear = false, int64_t fail_end = 0)
{
	Ctx &ctx = w.ctx;
	set_provider(v.prov);
	if (v.selective && v.cb) {
		// this token: does the callback act, or only look? The pin in force is setkey's when it only looks - whatever
		// it chose for earlier tokens
		const Party::Eff &e = cb_acts ? v.effA : v.effB;
		v.cb->passive = !cb_acts;
		v.has_key = e.has_key;
		v.owner = e.owner;
		v.key_alg = e.key_alg;
		v.eff_explicit = e.eff_explicit;
	}
	if (v.cb)
		v.cb->capture = pristine && src && src->from_builder;
	if (fail_end > 0) {
		// count the requests of this very call first (a verify leaves nothing behind that the next one could see)
		VerifyOut dry = lib_verify(ctx, v.chk, tok.c_str(), false);
		if (dry.ret != 0)
			jwt_checker_error_clear(v.chk);
		fail_at = (int64_t)dry.alloc_reqs - fail_end + 1;
		if (fail_at < 1)
			fail_at = 0;
		ctx.count("probe:alloc_fault_counted_from_the_end_of_the_call");
	}
	VerifyOut vo = lib_verify(ctx, v.chk, tok.c_str(), true, fail_at, fail_from);
	bool acc = vo.ret == 0;
	// Under an injected allocation failure every "accepted only if" monitor stays in force (a failed allocation is no
	// licence to accept); what a fault-free verify owes a good token is not demanded. A fault that fell inside
	// jansson's parser may have changed what libjwt read (known finding under C17): such a delivery is not judged.
	bool faulted = vo.faults_fired > 0;
	if (vo.tainted) {
		ctx.count("probe:delivery_under_alloc_fault_inside_jansson_not_judged");
		ctx.logf("DELIVER to=%d under allocation fault %lld inside the JSON parser -> ret=%d: not judged", vi, (long long)fail_at, vo.ret);
		if (!acc)
			jwt_checker_error_clear(v.chk);
		return;
	}
	std::string faults = faults_in;
	if (faulted) {
		faults += faults.empty() ? "allocfail" : ",allocfail";
		ctx.count("probe:delivery_judged_under_alloc_fault");
	}
	const KeyTruth *k = party_truth(w, v);
	bool adm = admissible(v.has_key, v.key_alg, v.eff_explicit);
	int pin = pinned_alg(v.has_key, v.key_alg, v.eff_explicit);
	const AlgInfo *pa = pin > 0 ? alg_by_id(pin) : NULL;
	TokenParts tp;
	token_split(tok, tp);
	const AlgInfo *ha = tp.alg_is_string ? alg_by_name(tp.alg) : NULL;
	bool third_empty = tp.has2 && tp.seg[2].empty();
	bool malformed = !tp.has2 || !tp.hdr_ok || !tp.alg_is_string || !ha || !tp.pay_ok;
	bool refvalid = k && ha && ha->fam != FAM_NONE && tp.has2 && ref_sig_valid(*k, *ha, tp.signing_input, tp.seg[2]);
	ctx.logf("DELIVER to=%d(%s key=%s pin=%s route=%d) faults=[%s] tok=%s -> ret=%d msg='%s' ref: malformed=%d valid=%d", vi, prov_name(v.prov),
		 k ? k->label.c_str() : "none", pa ? pa->name : "-", v.route, faults.c_str(), show(tok, 70).c_str(), vo.ret, vo.msg.c_str(), malformed, refvalid);
	if (v.has_key && adm && pa && ha && pa == ha && k && key_family_ok(*k, *ha) && key_strength_ok(*k, *ha) && !third_empty) {
		ctx.count("probe:signature_layer_reached");
		if (refvalid)
			ctx.count("probe:signature_layer_reached_with_valid_signature");
	}
	ctx.sig(strf("DELIVER|%s|%s|%s|r%d|%s|hdr=%s|acc%d|%s", k ? k->label.c_str() : "nokey", pa ? pa->name : "-", prov_name(v.prov), v.route, faults.c_str(),
		     tp.alg_is_string ? show(tp.alg, 12).c_str() : (tp.alg_present ? "nonstring" : "absent"), acc, msg_class(vo.msg).c_str()));
	if (!faults.empty())
		ctx.nontrivial = true;
	// C02 core matrix cell: explicit alg x key kind/attr x header alg class x route
	if (w.bias == "C02") {
		int hcls = !tp.has2 || !tp.hdr_ok ? 0 : !tp.alg_present ? 1 : !tp.alg_is_string ? 2 : !ha ? 3 : 4 + ha->id;
		ctx.sig(strf("C02cell|e%d|k%s.%s|h%d|r%d", v.eff_explicit, k ? (k->kty == K_OCT ? "oct" : k->kty == K_RSA ? "rsa" : k->kty == K_EC ? "ec" : "okp") : "none", alg_name(v.key_alg), hcls, v.route));
		ctx.count("probe:c02_matrix_cells_visited");
	}
	std::string hdralg = tp.alg_is_string ? show(tp.alg, 16) : (tp.alg_present ? "<non-string>" : "<absent>");
	std::string kty = k ? (k->kty == K_OCT ? "oct" : k->kty == K_RSA ? "RSA" : k->kty == K_EC ? "EC" : "OKP") : "nokey";

	bool unusable_key = v.has_key && v.owner >= 0 && w.owners[(size_t)v.owner].broken;
	if (unusable_key)
		ctx.count("probe:verify_with_key_flagged_at_import");
	if (acc && unusable_key) {
		// a key that never imported (no key material, 0 bits) cannot have verified anything
		ctx.violation("C09", "verify-with-unusable-key", strf("%s:%s", kty.c_str(), hdralg.c_str()),
			      strf("verification succeeded with a key item the import had flagged as bad (%s, %d bits reported): %s", k ? k->label.c_str() : "?",
				   jwks_item_key_bits(v.form_priv ? w.owners[(size_t)v.owner].priv.item : w.owners[(size_t)v.owner].pub.item), show(tok, 200).c_str()));
		ctx.violation("C01", "accepted-without-valid-signature", strf("unusable-key:%s:hdr=%s", kty.c_str(), hdralg.c_str()),
			      strf("verifier whose key item was flagged at import accepted %s", show(tok, 300).c_str()));
	}
	if (acc) {
		ctx.count("probe:deliveries_accepted");
		// C06: malformed strings are rejected
		if (malformed)
			ctx.violation("C06", "malformed-accepted", !tp.has2 ? "no-two-dots" : !tp.hdr_ok ? "header-not-json-object" : !tp.alg_is_string ? "alg-not-string" : !ha ? "alg-unknown" : "payload-not-json",
				      strf("accepted a string the reference finds malformed: %s", show(tok, 300).c_str()));
		// ... and so is a first or second part whose length is 1 modulo 4: no base64 text has that length
		if (tp.has2 && (tp.seg[0].size() % 4 == 1 || tp.seg[1].size() % 4 == 1))
			ctx.violation("C06", "malformed-accepted", "segment-length-1-mod-4",
				      strf("accepted a token whose %s part has a length of 1 modulo 4 (not the length of any base64 text): %s", tp.seg[0].size() % 4 == 1 ? "first" : "second", show(tok, 300).c_str()));
		if (v.reject_all)
			ctx.violation("C19", "cb-error-accepted", "route5", "callback returned non-zero but verification succeeded");
		if (v.has_key || v.eff_explicit != JWT_ALG_NONE) {
			// C03 checker half
			if (third_empty || (tp.alg_is_string && tp.alg == "none"))
				ctx.violation("C03", "checker-unsigned-with-key", strf("route%d:%s:%s", v.route, third_empty ? "empty-sig" : "sig-present", hdralg.c_str()),
					      strf("checker holding key %s accepted unsigned token %s", k ? k->label.c_str() : "(alg only)", show(tok, 200).c_str()));
			// C02 admission for callback-selected pairs
			if (!adm)
				ctx.violation("C02", "cb-inadmissible-accepted", strf("route%d:%s", v.route, row_class(v.has_key, v.key_alg, v.eff_explicit)),
					      strf("verification succeeded although the callback-selected key/alg pair is outside the setkey table (explicit %s, key alg %s)",
						   alg_name(v.eff_explicit), alg_name(v.key_alg)));
			// C02 pin
			if (v.has_key && (!pa || !tp.alg_is_string || tp.alg != pa->name))
				ctx.violation("C02", "pin", strf("pinned:%s:header:%s:%s", pa ? pa->name : "none", hdralg.c_str(), kty.c_str()),
					      strf("checker pinned to %s (explicit %s, key %s alg attr %s) accepted a token whose header alg is %s: %s", pa ? pa->name : "(nothing)",
						   alg_name(v.eff_explicit), k ? k->label.c_str() : "?", alg_name(v.key_alg), hdralg.c_str(), show(tok, 300).c_str()));
			// C02 family / C09 floor
			if (k && ha && ha->fam != FAM_NONE) {
				if (ha->fam == FAM_ED && k->kty != K_OKP)
					ctx.violation("C09", "verify-below-floor", strf("EdDSA:%s", k->label.c_str()),
						      strf("verification with EdDSA succeeded with key %s, which is neither Ed25519 nor Ed448", k->label.c_str()));
				if (!key_family_ok(*k, *ha))
					ctx.violation("C02", "family", strf("%s-with-%s", ha->name, kty.c_str()),
						      strf("%s evaluated with a key of another family (%s) and accepted: %s", ha->name, k->label.c_str(), show(tok, 300).c_str()));
				else if (!key_strength_ok(*k, *ha))
					ctx.violation("C09", "verify-below-floor", strf("%s:%s", ha->name, k->label.c_str()),
						      strf("verification succeeded with %s and key %s, below the floor", ha->name, k->label.c_str()));
			}
			// C01: accepted => signature valid under the verifier's ground-truth key and the header's algorithm
			if (k && !refvalid)
				ctx.violation("C01", "accepted-without-valid-signature", strf("%s:hdr=%s:%s:%s", kty.c_str(), hdralg.c_str(), prov_name(v.prov), faults.empty() ? "pristine" : faults.c_str()),
					      strf("verifier with key %s on %s accepted %s but no reading of the third segment is a valid %s signature over the first two segments under that key",
						   k->label.c_str(), prov_name(v.prov), show(tok, 400).c_str(), hdralg.c_str()));
		} else {
			// C03: without a key only alg "none" with an empty third segment passes
			if (!(tp.alg_is_string && tp.alg == "none") || !third_empty)
				ctx.violation("C03", "checker-nokey-accepts", strf("hdr=%s:%s", hdralg.c_str(), third_empty ? "empty-sig" : "sig-present"),
					      strf("checker without key accepted %s", show(tok, 200).c_str()));
		}
	} else {
		// C05 completeness: pristine token of owner O with alg A to a verifier holding O's key pinned to A
		bool live = !(src && src->exp_at && g_clock.now() >= src->exp_at); // not expired at the verifier's instant
		if (!faulted && pristine && live && !unusable_key && src && !src->unsigned_tok && !v.expect && v.has_key && v.owner == src->owner && adm && pa && pa->id == src->alg && k && key_family_ok(*k, *pa) &&
		    key_strength_ok(*k, *pa) && provider_supports(v.prov, *pa, *k) && !v.reject_all)
			ctx.violation("C05", "valid-token-rejected", strf("%s:%s:%s->%s", pa->name, k->label.c_str(), src->from_builder ? prov_name(src->prov) : "reference", prov_name(v.prov)),
				      strf("pristine %s token from %s for key %s rejected by %s verifier: '%s' token=%s", pa->name, src->from_builder ? prov_name(src->prov) : "the reference signer",
					   k->label.c_str(), prov_name(v.prov), vo.msg.c_str(), show(tok, 300).c_str()));
		if (!faulted && pristine && live && src && src->unsigned_tok && !v.expect && !v.has_key && v.eff_explicit == JWT_ALG_NONE && !v.reject_all)
			ctx.violation("C03", "checker-nokey-rejects-none", "pristine-none",
				      strf("checker without key rejected a pristine alg-none token: '%s' %s", vo.msg.c_str(), show(tok, 200).c_str()));
	}
	// C05 content: what the checker callback read equals what the builder was given plus library members
	if (acc && !faulted && pristine && src && src->from_builder && v.cb && v.cb->capture && v.cb->calls > 0 && src->issuer >= 0) {
		Party &is = w.issuers[(size_t)src->issuer];
		json_t *eh = json_deep_copy(is.hdr_in), *ec = json_deep_copy(is.claims_in);
		json_object_set_new(eh, "alg", json_string(alg_name(src->alg)));
		if (src->alg != JWT_ALG_NONE && !json_object_get(eh, "typ"))
			json_object_set_new(eh, "typ", json_string("JWT"));
		if (is.iat)
			json_object_set_new(ec, "iat", json_integer(src->issued_at));
		if (is.exp_off > 0)
			json_object_set_new(ec, "exp", json_integer(src->issued_at + is.exp_off));
		json_t *gh = json_loads(v.cb->hdr_json.c_str(), 0, NULL), *gc = json_loads(v.cb->claims_json.c_str(), 0, NULL);
		ctx.count("probe:content_roundtrip_compared");
		ctx.count("probe:typed_getter_reads_in_callback", (uint64_t)v.cb->typed_reads);
		v.cb->typed_reads = 0;
		for (auto &tm : v.cb->typed_mismatch)
			ctx.violation("C05", "typed-read", tm.substr(0, tm.find(' ')), "inside the checker callback: " + tm);
		if (!gh || !json_equal(gh, eh))
			ctx.violation("C05", "header-content", strf("%s", alg_name(src->alg)),
				      strf("header read in the checker callback %s differs from builder input plus library members %s", show(v.cb->hdr_json, 300).c_str(), show(json_text(eh), 300).c_str()));
		if (!gc || !json_equal(gc, ec))
			ctx.violation("C05", "claims-content", strf("%s", alg_name(src->alg)),
				      strf("claims read in the checker callback %s differ from builder input plus library members %s", show(v.cb->claims_json, 300).c_str(), show(json_text(ec), 300).c_str()));
		json_decref(eh);
		json_decref(ec);
		if (gh)
			json_decref(gh);
		if (gc)
			json_decref(gc);
	}
	// C12: same verdict under the other provider for pristine or not-validly-signed tokens
	if (w.bias == "C12" && !faulted && k && ha && ha->fam != FAM_NONE && provider_supports(PROV_GNUTLS, *ha, *k)) {
		bool comparable = (pristine && !malformed) || (destroys && !refvalid && !encoding_level);
		if (comparable) {
			set_provider(1 - v.prov);
			VerifyOut v2 = lib_verify(ctx, v.chk, tok.c_str());
			set_provider(v.prov);
			ctx.count("probe:verdict_compared_across_providers");
			if ((v2.ret == 0) != acc)
				ctx.violation("C12", "verdict-differs", strf("%s:%s:%s", ha->name, kty.c_str(), pristine ? "pristine" : "invalid"),
					      strf("%s says %d ('%s') but %s says %d ('%s') for %s token %s", prov_name(v.prov), vo.ret, vo.msg.c_str(), prov_name(1 - v.prov), v2.ret, v2.msg.c_str(),
						   pristine ? "a pristine" : "an invalid", show(tok, 300).c_str()));
		} else
			ctx.count("probe:c12_encoding_level_fault_not_compared");
	}
	// most applications clear a checker's error after a rejection; some just go on with the next token
	if (!acc && !noclear)
		jwt_checker_error_clear(v.chk);
	else if (!acc)
		ctx.count("probe:rejection_left_uncleared_on_the_checker");
}

static void do_deliver(World &w, const Step &s, bool garbage)
{
	Ctx &ctx = w.ctx;
	if (w.verifiers.empty())
		return;
	int vi = (int)((uint64_t)s.I("to") % w.verifiers.size());
	const Msg *src = NULL;
	std::string tok;
	bool pristine = true, destroys = false, enc = false;
	std::string faults;
	if (!w.pool.empty())
		src = s.I("latest") ? &w.pool.back() : &w.pool[(uint64_t)s.I("token") % w.pool.size()];
	if (!garbage && !src)
		return;
	if (!garbage && s.I("retired_of") > 0) {
		int ro = (int)((uint64_t)(s.I("retired_of") - 1) % (w.owners.empty() ? 1 : w.owners.size()));
		for (size_t j = 0; j < w.pool.size(); j++) {
			const Msg &c = w.pool[((uint64_t)s.I("token") + j) % w.pool.size()];
			if (c.orig_owner == ro && c.owner == -2) {
				src = &c;
				break;
			}
		}
		for (size_t j = 0; j < w.verifiers.size(); j++) {
			size_t c = ((size_t)vi + j) % w.verifiers.size();
			if (w.verifiers[c].has_key && w.verifiers[c].owner == ro) {
				vi = (int)c;
				break;
			}
		}
		if (src->owner == -2)
			ctx.count("fault:late_replay_of_token_signed_with_retired_key");
	}
	if (!garbage && s.I("match") && src->owner >= 0) {
		// prefer a verifier that holds the issuing owner's key
		for (size_t j = 0; j < w.verifiers.size(); j++) {
			size_t c = ((size_t)vi + j) % w.verifiers.size();
			Party &cv = w.verifiers[c];
			if (cv.has_key && cv.owner == src->owner && pinned_alg(cv.has_key, cv.key_alg, cv.eff_explicit) == src->alg) {
				vi = (int)c;
				break;
			}
		}
	}
	Party &v = w.verifiers[(size_t)vi];
	if (!v.chk)
		return;
	const KeyTruth *vk = party_truth(w, v);
	if (garbage) {
		int kind = (int)s.I("kind");
		tok = gen_garbage(kind, (uint64_t)s.I("seed"), (size_t)s.I("len"), src ? src->token : "e30.e30.");
		pristine = false;
		faults = strf("garbage%d", ((kind % N_GARBAGE_KINDS) + N_GARBAGE_KINDS) % N_GARBAGE_KINDS);
		ctx.count("fault:garbage_delivery");
		src = NULL;
	} else
		tok = src->token;
	if (!s.sub.empty()) {
		MutCtx mc;
		std::vector<std::string> others;
		for (auto &m : w.pool)
			others.push_back(m.token);
		mc.pool = &others;
		mc.verifier_key = vk;
		{
			int vpin = pinned_alg(v.has_key, v.key_alg, v.eff_explicit);
			if (vpin > JWT_ALG_NONE && vpin < JWT_ALG_INVAL)
				mc.pin_name = ALGS[vpin].name;
		}
		mc.resign = [&](const std::string &alg, int signer, const std::string &si, std::string &sig) -> bool {
			const AlgInfo *a = alg_by_name(alg);
			Rng r(mix64(w.plan.rng, s.uid * 31 + (uint64_t)signer));
			size_t plausible = a ? (a->fam == FAM_HS ? (size_t)a->hash_bits / 8 : a->fam == FAM_ES ? (size_t)((a->ec_bits + 7) / 8) * 2 : a->fam == FAM_ED ? 64 : 256) : 32;
			int hb = a && a->fam == FAM_HS ? a->hash_bits : 256;
			switch (((signer % 9) + 9) % 9) {
			case 8: {
				// the verifier's own key signing the way its family signs (RS256 for RSA, ES* of its curve for EC,
				// EdDSA for OKP, HS256 for oct) under a header that names whatever the verifier pinned
				if (vk) {
					int kind = vk->kty == K_OCT ? 0 : vk->kty == K_RSA ? 1 : vk->kty == K_EC ? 2 : 3;
					std::vector<int> nat = natural_algs(kind, crv_idx(vk->crv));
					if (ref_sign(*vk, ALGS[nat[r.below(nat.size())]], si, sig))
						return true;
				}
				sig = r.bytes(plausible);
				return true;
			}
			case 0:
				sig = ref_hmac(hb, "", si);
				return true;
			case 1:
				sig = ref_hmac(hb, vk && vk->pkey ? key_pub_pem(*vk) : "", si);
				return true;
			case 2:
				sig = ref_hmac(hb, vk && vk->pkey ? key_pub_der(*vk) : "", si);
				return true;
			case 3:
				sig = ref_hmac(hb, vk && vk->kty == K_RSA ? key_rsa_n(*vk) : "", si);
				return true;
			case 4: {
				// another owner's key
				for (size_t j = 0; j < w.owners.size(); j++) {
					Owner &oo = w.owners[((uint64_t)s.I("to") + j + 1) % w.owners.size()];
					if (oo.truth.get() == vk)
						continue;
					if (a && a->fam != FAM_NONE && key_family_ok(*oo.truth, *a) && ref_sign(*oo.truth, *a, si, sig))
						return true;
				}
				sig = r.bytes(plausible);
				return true;
			}
			case 5:
				// the legitimate owner's key with the named algorithm (off-pin but genuinely signed)
				if (vk && a && a->fam != FAM_NONE && key_family_ok(*vk, *a) && ref_sign(*vk, *a, si, sig))
					return true;
				sig = r.bytes(plausible);
				return true;
			case 6:
				sig = r.bytes(plausible);
				return true;
			default:
				if (vk && a && a->fam != FAM_NONE && key_family_ok(*vk, *a) && ref_sign(*vk, *a, si, sig) && !sig.empty()) {
					sig[r.below(sig.size())] ^= (char)(1 << r.below(8));
					return true;
				}
				sig = r.bytes(plausible);
				return true;
			}
		};
		for (auto &m : s.sub) {
			std::string d = apply_mutation(m, tok, mc, destroys, enc);
			if (!faults.empty())
				faults += ",";
			faults += d.substr(0, d.find('('));
			ctx.count("fault:" + m.op);
			if (m.op == "resign")
				ctx.count(strf("fault:resign_signer_%lld", (long long)(((m.I("signer") % 9) + 9) % 9)));
		}
		pristine = false;
	}
	// a C string cannot carry NUL
	for (auto &c : tok)
		if (c == 0)
			c = 1;
	if (tok.empty())
		tok = ".";
	if (vk && vk->kty == K_EC) {
		// reach probe: a signature of the key's width whose two halves both have the top bit set needs the longest DER
		// encoding the provider will ever build for this curve
		TokenParts tp;
		token_split(tok, tp);
		std::string sg;
		size_t w2 = (size_t)((vk->bits + 7) / 8);
		if (tp.has2 && b64_decode_lenient(tp.seg[2], sg) && sg.size() == 2 * w2 && (sg[0] & 0x80) && (sg[w2] & 0x80))
			ctx.count(strf("probe:ec_signature_with_longest_der_encoding_delivered:%s:%s", vk->crv.c_str(), prov_name(v.prov)));
	}
	judge_delivery(w, v, vi, tok, src, pristine, destroys, enc, faults, s.I("failalloc"), s.I("failfrom") != 0, s.I("cbpassive") == 0, s.I("noclear") != 0, s.I("failend"));
}

// ---------------------------------------------------------------- executor
static void world_exec(Ctx &ctx)
{
	World w(ctx);
	w.bias = w.plan.CS("bias", w.plan.property);
	auto one_step = [&](const Step &s) {
		if (s.op == "OWNER")
			do_owner(w, s);
		else if (s.op == "VERIFIER")
			do_party(w, s, true);
		else if (s.op == "ISSUER")
			do_party(w, s, false);
		else if (s.op == "ISSUE")
			do_issue(w, s);
		else if (s.op == "REFISSUE")
			do_refissue(w, s);
		else if (s.op == "DELIVER")
			do_deliver(w, s, false);
		else if (s.op == "GARBAGE")
			do_deliver(w, s, true);
		else if (s.op == "RECONFIG")
			do_reconfig(w, s);
		else if (s.op == "ROTATE")
			do_rotate(w, s);
		else if (s.op == "ADVANCE") {
			g_clock.advance(s.I("dt"));
			ctx.logf("ADVANCE %lld", (long long)s.I("dt"));
		}
	};
	g_alloc.spare_jansson = true;
	g_alloc.reuse = w.plan.C("reuse") != 0;
	if (g_alloc.reuse)
		ctx.count("fault:allocator_address_reuse_runs");
	if (w.plan.C("one_thread")) {
		// One fresh thread for the whole run: thread-local state of the libraries (OpenSSL error queue,
		// GnuTLS per-thread DRBG, any per-thread cache) carries over from step to step, as in a real
		// single-threaded service. Replay is still a function of the plan alone.
		ctx.count("probe:runs_on_one_thread");
		run_isolated(mix64(w.plan.rng, 0x0e7), [&]() {
			for (size_t si = 0; si < w.plan.steps.size(); si++) {
				ctx.cur_step = (int)si;
				sim_entropy_point(mix64(w.plan.rng, w.plan.steps[si].uid));
				one_step(w.plan.steps[si]);
			}
		});
	} else {
		for (size_t si = 0; si < w.plan.steps.size(); si++) {
			const Step &s = w.plan.steps[si];
			ctx.cur_step = (int)si;
			// Every step runs on a fresh thread with the entropy stream re-pointed, so that signatures
			// (OpenSSL RAND method, GnuTLS per-thread DRBG) are a function of (plan.rng, step.uid) only.
			run_isolated(mix64(w.plan.rng, s.uid), [&]() { one_step(s); });
		}
	}
	if (w.pool.size() > 1 || w.verifiers.size() > 1)
		ctx.nontrivial = true;
	set_provider(PROV_OPENSSL);
	for (auto &p : w.verifiers)
		if (p.chk) {
			Armed a;
			jwt_checker_free(p.chk);
		}
	for (auto &p : w.issuers) {
		if (p.bld) {
			Armed a;
			jwt_builder_free(p.bld);
		}
		if (p.hdr_in)
			json_decref(p.hdr_in);
		if (p.claims_in)
			json_decref(p.claims_in);
	}
	for (auto &o : w.owners) {
		lib_free_key(o.priv);
		lib_free_key(o.pub);
	}
	monitor_no_leak(ctx, "C06", "world-run");
}

extern const Profile PROFILE_WORLD = {"world", world_gen, world_exec};
