// Profile "threads" (C18): 2-4 real caller threads, each with its own builders and checkers,
// sharing the items of one keyring, under a seeded serialising scheduler. Exactly one thread runs
// at a time; it hands control back at every allocator request and op boundary; the next thread
// is drawn from the run's PRNG. In the TSan build the handoffs are bracketed with
// AnnotateIgnoreSync*, so the scheduler's semaphores create no happens-before edges and
// ThreadSanitizer reports any pair of conflicting accesses that the library's own
// synchronisation does not order - deterministically for that schedule.
#include "lib.hpp"
#include "world.hpp"
#include <pthread.h>
#include <semaphore.h>
#include <atomic>
#include <mutex>

#ifdef SIM_TSAN
extern "C" void AnnotateIgnoreSyncBegin(const char *file, int line);
extern "C" void AnnotateIgnoreSyncEnd(const char *file, int line);
#define IGNORE_SYNC_BEGIN() AnnotateIgnoreSyncBegin(__FILE__, __LINE__)
#define IGNORE_SYNC_END() AnnotateIgnoreSyncEnd(__FILE__, __LINE__)
#else
#define IGNORE_SYNC_BEGIN() ((void)0)
#define IGNORE_SYNC_END() ((void)0)
#endif

static const int MAXT = 4;

// ---------------------------------------------------------------- generator
static void threads_gen(Rng &r, Plan &p, Tier tier, uint64_t index)
{
	(void)index;
	(void)tier;
	int nt = (int)r.range(2, MAXT);
	p.cfg["threads"] = Val((int64_t)nt);
	p.cfg["prov"] = Val((int64_t)r.below(2));
	p.cfg["policy"] = Val((int64_t)r.below(4)); // 0 uniform, 1 sticky bursts, 2 round robin, 3 preempt right after allocation n
	p.cfg["burst"] = Val(r.range(2, 40));
	p.cfg["preempt_n"] = Val(r.range(1, 30));
	// the shared keyring: slots 0..5 = oct, ec256, ec384, ed25519, rsa, ec521
	int total = 0;
	uint64_t uid = 1;
	for (int t = 0; t < nt; t++)
		total += (int)r.range(3, 12);
	std::vector<int64_t> produced; // uids of GEN steps
	for (int i = 0; i < total; i++) {
		Step s;
		int thr = (int)r.below((uint64_t)nt);
		int key = (int)r.pick(std::vector<int>{0, 0, 1, 1, 2, 3, 3, 4, 5, 6});
		if (!produced.empty() && r.chance(1, 2)) {
			s = Step("VERIFY");
			// a token issued by any thread earlier in plan order (availability is a scheduler condition),
			// or a reference-made token
			s.set("src", r.chance(2, 3) ? (int64_t)r.pick(produced) : -1);
			s.set("damage", r.chance(1, 3) ? 1 : 0);
			s.set("cb", r.chance(1, 3) ? 1 : 0);
			s.set("claims", r.chance(1, 3) ? 1 : 0);
			// the checker is handed the private form of the shared key (a JWK may sign and verify): the provider
			// derives the public half itself
			s.set("vpriv", r.chance(1, 3) ? 1 : 0);
		} else {
			s = Step("GEN");
			produced.push_back((int64_t)uid);
			s.set("cb", r.chance(1, 4) ? 1 : 0);
			s.set("claimsel", (int64_t)r.below(6));
		}
		s.set("thread", thr);
		s.set("key", key);
		if (r.chance(1, 3))
			s.set("bykid", r.chance(1, 3) ? 2 : 1); // key resolved in the shared keyring from inside the thread's callback: 1 by kid, 2 by position
		s.uid = uid++;
		p.steps.push_back(s);
		// now and then a forger and its victim: one thread verifies a genuine HS token while another verifies a token
		// made of its own header and payload and the genuine token's MAC (never valid; a verifier that computes its
		// MAC in a place another thread can write to accepts it)
		if (nt >= 2 && r.chance(1, 10)) {
			int64_t pair = (int64_t)uid;
			int t1 = (int)r.below((uint64_t)nt), t2 = (t1 + 1 + (int)r.below((uint64_t)nt - 1)) % nt;
			Step a("VERIFY"), b("VERIFY");
			a.set("src", -1);
			b.set("src", -1);
			a.set("key", 0);
			b.set("key", 0);
			a.set("thread", t1);
			b.set("thread", t2);
			a.set("splice", pair);
			b.set("victim", pair);
			if (r.chance(1, 2))
				std::swap(a, b);
			a.uid = uid++;
			p.steps.push_back(a);
			b.uid = uid++;
			p.steps.push_back(b);
		}
	}
}

// ---------------------------------------------------------------- shared keyring
struct SharedKeys {
	static const int NK = 7;
	KeyRef truth[NK];
	LoadedKey priv[NK], pub[NK];
	int alg[NK];
	jwk_set_t *ring_priv = nullptr, *ring_pub = nullptr; // all keys in one JWKS each, kid "k0".."k5"
	void init(Ctx &ctx, uint64_t root)
	{
		Rng r(mix64(root, 0x7431));
		sim_entropy_point(mix64(root, 0x7432));
		truth[0] = key_gen_oct(r, 64);
		alg[0] = JWT_ALG_HS512;
		truth[1] = key_gen_ec("P-256");
		alg[1] = JWT_ALG_ES256;
		truth[2] = key_gen_ec("P-384");
		alg[2] = JWT_ALG_ES384;
		truth[3] = key_gen_okp("Ed25519");
		alg[3] = JWT_ALG_EDDSA;
		truth[4] = key_rsa_pool(2048, 0);
		alg[4] = JWT_ALG_RS256;
		truth[5] = key_gen_ec("P-521");
		alg[5] = JWT_ALG_ES512;
		truth[6] = key_gen_ec("secp256k1"); // GnuTLS has no ES256K: every use fails there, the same way in every thread
		alg[6] = JWT_ALG_ES256K;
		json_t *dpriv = json_object(), *dpub = json_object(), *apriv = json_array(), *apub = json_array();
		// eight keys nobody asks for in front: the keys in use sit at positions 9 to 14 of the shared rings
		for (int i = 0; i < 8; i++) {
			KeyRef f = key_gen_oct(r, 32);
			JwkOpts o;
			o.has_kid = true;
			o.kid = strf("f%d", i);
			json_array_append_new(apriv, jwk_export_json(*f, o));
			json_array_append_new(apub, jwk_export_json(*f, o));
		}
		for (int i = 0; i < NK; i++) {
			JwkOpts o;
			o.priv = true;
			lib_load_key(ctx, jwk_export(*truth[i], o), priv[i]);
			o.has_kid = true;
			o.kid = strf("k%d", i);
			json_array_append_new(apriv, jwk_export_json(*truth[i], o));
			o.has_kid = false;
			o.priv = false;
			lib_load_key(ctx, jwk_export(*truth[i], o), pub[i]);
			o.has_kid = true;
			json_array_append_new(apub, jwk_export_json(*truth[i], o));
		}
		json_object_set_new(dpriv, "keys", apriv);
		json_object_set_new(dpub, "keys", apub);
		std::string tp = json_text(dpriv), tu = json_text(dpub);
		json_decref(dpriv);
		json_decref(dpub);
		Armed a;
		ring_priv = jwks_create(tp.c_str());
		ring_pub = jwks_create(tu.c_str());
	}
	void fini()
	{
		for (int i = 0; i < NK; i++) {
			lib_free_key(priv[i]);
			lib_free_key(pub[i]);
		}
		Armed a;
		jwks_free(ring_priv);
		jwks_free(ring_pub);
	}
};

// ---------------------------------------------------------------- one op (used sequentially and threaded)
struct OpOut {
	int done = 0;
	int ret = -99;
	std::string token;
};

struct RunCtx {
	const Plan *plan;
	SharedKeys *keys;
	std::vector<OpOut> out;      // per plan step; written only by the owning thread
	std::vector<std::atomic<int>> avail; // token of step i is in the pool (relaxed: no happens-before)
	std::mutex pool_mu;          // real synchronisation for data that travels between threads
	std::vector<std::string> pool;
	RunCtx(size_t n) : out(n), avail(n), pool(n)
	{
		for (auto &a : avail)
			a.store(0, std::memory_order_relaxed);
	}
};

// A VERIFY names its token by the uid of the issuing GEN step, so that plans stay valid when the
// shrinker removes steps: the reference resolves only to a GEN earlier in plan order.
static int64_t resolve_src(const Plan &plan, size_t idx)
{
	const Step &s = plan.steps[idx];
	int64_t u = s.I("src");
	if (s.op != "VERIFY" || u < 0)
		return -1;
	for (size_t i = 0; i < idx; i++)
		if (plan.steps[i].uid == (uint64_t)u && plan.steps[i].op == "GEN")
			return (int64_t)i;
	return -1;
}

static int thr_cb(jwt_t *jwt, jwt_config_t *config)
{
	(void)config;
	jwt_value_t jv;
	jv_set_str(&jv, "cb", "touched", 1);
	jwt_claim_set(jwt, &jv);
	jv_get(&jv, JWT_VALUE_JSON, NULL);
	if (jwt_header_get(jwt, &jv) == JWT_VALUE_ERR_NONE && jv.json_val)
		sim_free(jv.json_val);
	return 0;
}

// The thread resolves its key by kid in the shared keyring from inside the callback (read-only use
// of the keyring by several threads at once).
struct KidCtx {
	jwk_set_t *ring;
	const char *kid;
	int alg;
	int index; // >= 0: look the key up by its position in the ring instead of by kid
};

static int kid_cb(jwt_t *jwt, jwt_config_t *config)
{
	(void)jwt;
	KidCtx *k = (KidCtx *)config->ctx;
	const jwk_item_t *it = k->index >= 0 ? jwks_item_get(k->ring, (size_t)k->index) : jwks_find_bykid(k->ring, k->kid);
	if (!it)
		return 1;
	config->key = it;
	config->alg = (jwt_alg_t)k->alg;
	return 0;
}

static void do_op(RunCtx &rc, size_t idx)
{
	const Step &s = rc.plan->steps[idx];
	int key = (int)s.I("key") % SharedKeys::NK;
	SharedKeys &K = *rc.keys;
	OpOut &o = rc.out[idx];
	sim_entropy_point(mix64(rc.plan->rng, s.uid));
	if (s.op == "GEN") {
		jwt_builder_t *b = jwt_builder_new();
		if (!b) {
			o.ret = -1;
			o.done = 1;
			return;
		}
		std::string kid = strf("k%d", key);
		KidCtx kc{K.ring_priv, kid.c_str(), K.alg[key], s.I("bykid") == 2 ? 8 + key : -1};
		if (s.I("bykid"))
			jwt_builder_setcb(b, kid_cb, &kc);
		else
			jwt_builder_setkey(b, (jwt_alg_t)K.alg[key], K.priv[key].item);
		jwt_value_t jv;
		static const char *vals[] = {"alpha", "beta", "a-longer-claim-value-0123456789", "", "\xc3\xa9", "x"};
		jv_set_str(&jv, "sub", vals[(uint64_t)s.I("claimsel") % 6], 1);
		jwt_builder_claim_set(b, &jv);
		jv_set_int(&jv, "n", (long)idx, 1);
		jwt_builder_claim_set(b, &jv);
		if (s.I("cb") && !s.I("bykid"))
			jwt_builder_setcb(b, thr_cb, NULL);
		char *t = jwt_builder_generate(b);
		o.ret = t ? 0 : 1;
		if (t) {
			o.token = t;
			sim_free(t);
		}
		jwt_builder_free(b);
		// publish: real synchronisation, as a correct application would use
		{
			std::lock_guard<std::mutex> g(rc.pool_mu);
			rc.pool[idx] = o.token;
		}
		rc.avail[idx].store(1, std::memory_order_relaxed);
	} else {
		std::string tok;
		int64_t src = resolve_src(*rc.plan, idx);
		int vkey = key;
		if (src >= 0 && (size_t)src < rc.pool.size()) {
			std::lock_guard<std::mutex> g(rc.pool_mu);
			tok = rc.pool[(size_t)src];
			vkey = (int)rc.plan->steps[(size_t)src].I("key") % SharedKeys::NK;
			if (s.I("claims") && idx % 2)
				vkey = key; // sometimes the wrong key on purpose
		} else {
			const AlgInfo &a = ALGS[K.alg[key]];
			ref_make_token(strf("{\"alg\":\"%s\"}", a.name), strf("{\"sub\":\"ref\",\"n\":%zu}", idx), K.truth[key].get(), &a, tok);
		}
		if (s.I("victim") || s.I("splice")) {
			const AlgInfo &a = ALGS[K.alg[0]];
			int64_t pair = s.I("victim") ? s.I("victim") : s.I("splice");
			std::string genuine;
			ref_make_token(strf("{\"alg\":\"%s\"}", a.name), strf("{\"sub\":\"victim\",\"n\":%lld}", (long long)pair), K.truth[0].get(), &a, genuine);
			if (s.I("victim"))
				tok = genuine;
			else {
				std::string own;
				ref_make_token(strf("{\"alg\":\"%s\"}", a.name), strf("{\"sub\":\"forger\",\"admin\":true,\"n\":%lld}", (long long)pair), K.truth[0].get(), &a, own);
				tok = own.substr(0, own.rfind('.') + 1) + genuine.substr(genuine.rfind('.') + 1);
			}
			vkey = 0;
		}
		if (s.I("damage") && tok.size() > 8)
			tok[tok.size() - 5] = tok[tok.size() - 5] == 'A' ? 'B' : 'A';
		jwt_checker_t *c = jwt_checker_new();
		if (!c) {
			o.ret = -1;
			o.done = 1;
			return;
		}
		std::string kid = strf("k%d", vkey);
		bool vpriv = s.I("vpriv") != 0;
		KidCtx kc{vpriv ? K.ring_priv : K.ring_pub, kid.c_str(), K.alg[vkey], s.I("bykid") == 2 ? 8 + vkey : -1};
		if (s.I("bykid"))
			jwt_checker_setcb(c, kid_cb, &kc);
		else
			jwt_checker_setkey(c, (jwt_alg_t)K.alg[vkey], vpriv ? K.priv[vkey].item : K.pub[vkey].item);
		if (s.I("claims"))
			jwt_checker_claim_set(c, JWT_CLAIM_SUB, "alpha");
		if (s.I("cb") && !s.I("bykid"))
			jwt_checker_setcb(c, thr_cb, NULL);
		o.ret = jwt_checker_verify(c, tok.empty() ? "x" : tok.c_str());
		jwt_checker_free(c);
	}
	o.done = 1;
}

// ---------------------------------------------------------------- scheduler
struct Sched {
	int n = 0;
	sem_t sems[MAXT];
	sem_t main_sem;
	std::atomic<int> state[MAXT]; // 0 runnable, 1 waiting for a token, 2 finished
	std::atomic<int> want[MAXT];  // plan index whose token the thread waits for
	std::atomic<uint64_t> allocs_in_op[MAXT];
	Rng rng{1};
	int policy = 0;
	int64_t burst = 8, preempt_n = 5;
	uint64_t decisions = 0;
	Hasher choice_hash;
	RunCtx *rc = nullptr;
	std::vector<size_t> script[MAXT];
};
static Sched *g_sched;
static thread_local int t_tid = -1;

static void sched_yield_point(void)
{
	Sched *sc = g_sched;
	if (!sc || t_tid < 0)
		return;
	sc->allocs_in_op[t_tid].fetch_add(1, std::memory_order_relaxed);
	IGNORE_SYNC_BEGIN();
	sem_post(&sc->main_sem);
	sem_wait(&sc->sems[t_tid]);
	IGNORE_SYNC_END();
}

static void *thread_main(void *arg)
{
	int tid = (int)(intptr_t)arg;
	Sched *sc = g_sched;
	t_tid = tid;
	IGNORE_SYNC_BEGIN();
	sem_wait(&sc->sems[tid]);
	IGNORE_SYNC_END();
	for (size_t k = 0; k < sc->script[tid].size(); k++) {
		size_t idx = sc->script[tid][k];
		const Step &s = sc->rc->plan->steps[idx];
		int64_t src = resolve_src(*sc->rc->plan, idx);
		(void)s;
		// availability of a token issued by another thread is a scheduler condition: no thread ever
		// blocks on anything but the scheduler
		while (src >= 0 && (size_t)src < sc->rc->avail.size() && !sc->rc->avail[(size_t)src].load(std::memory_order_relaxed)) {
			sc->want[tid].store((int)src, std::memory_order_relaxed);
			sc->state[tid].store(1, std::memory_order_relaxed);
			sched_yield_point();
		}
		sc->state[tid].store(0, std::memory_order_relaxed);
		sc->allocs_in_op[tid].store(0, std::memory_order_relaxed);
		do_op(*sc->rc, idx);
		sched_yield_point(); // op boundary
	}
	sc->state[tid].store(2, std::memory_order_relaxed);
	IGNORE_SYNC_BEGIN();
	sem_post(&sc->main_sem);
	IGNORE_SYNC_END();
	return NULL;
}

static void run_threaded(Ctx &ctx, RunCtx &rc, int nt)
{
	const Plan &plan = *rc.plan;
	Sched sc;
	sc.n = nt;
	sc.rc = &rc;
	sc.rng = Rng(mix64(plan.rng, 0x5c4ed));
	sc.policy = (int)plan.C("policy");
	sc.burst = plan.C("burst", 8);
	sc.preempt_n = plan.C("preempt_n", 5);
	sem_init(&sc.main_sem, 0, 0);
	for (int t = 0; t < nt; t++) {
		sem_init(&sc.sems[t], 0, 0);
		sc.state[t].store(0);
		sc.want[t].store(-1);
		sc.allocs_in_op[t].store(0);
	}
	for (size_t i = 0; i < plan.steps.size(); i++)
		sc.script[(int)plan.steps[i].I("thread") % nt].push_back(i);
	g_sched = &sc;
	g_alloc.thread_mode = true;
	g_yield_hook = sched_yield_point;
	pthread_t th[MAXT];
	for (int t = 0; t < nt; t++)
		pthread_create(&th[t], NULL, thread_main, (void *)(intptr_t)t);
	int cur = -1, rr = 0;
	int64_t left_in_burst = 0;
	while (true) {
		std::vector<int> runnable;
		int finished = 0;
		for (int t = 0; t < nt; t++) {
			int st = sc.state[t].load(std::memory_order_relaxed);
			if (st == 2)
				finished++;
			else if (st == 0)
				runnable.push_back(t);
			else {
				int w = sc.want[t].load(std::memory_order_relaxed);
				if (w >= 0 && rc.avail[(size_t)w].load(std::memory_order_relaxed))
					runnable.push_back(t);
			}
		}
		if (finished == nt)
			break;
		if (runnable.empty()) {
			ctx.violation("C18", "scheduler-deadlock", "harness", "no runnable thread although not all finished");
			break;
		}
		int pick;
		bool cur_ok = std::find(runnable.begin(), runnable.end(), cur) != runnable.end();
		switch (sc.policy) {
		case 1: // sticky bursts
			if (cur_ok && left_in_burst > 0) {
				pick = cur;
				left_in_burst--;
			} else {
				pick = runnable[sc.rng.below(runnable.size())];
				left_in_burst = (int64_t)sc.rng.below((uint64_t)sc.burst) + 1;
			}
			break;
		case 2: // round robin
			pick = runnable[(size_t)(rr++) % runnable.size()];
			break;
		case 3: // stay on a thread until its op made preempt_n allocations, then switch
			if (cur_ok && (int64_t)sc.allocs_in_op[cur].load(std::memory_order_relaxed) % (sc.preempt_n + 1) != sc.preempt_n)
				pick = cur;
			else {
				pick = runnable[sc.rng.below(runnable.size())];
				if (runnable.size() > 1 && pick == cur)
					pick = runnable[(std::find(runnable.begin(), runnable.end(), cur) - runnable.begin() + 1) % runnable.size()];
			}
			break;
		default:
			pick = runnable[sc.rng.below(runnable.size())];
		}
		cur = pick;
		sc.decisions++;
		unsigned char c = (unsigned char)pick;
		sc.choice_hash.add(&c, 1);
		IGNORE_SYNC_BEGIN();
		sem_post(&sc.sems[pick]);
		sem_wait(&sc.main_sem);
		IGNORE_SYNC_END();
	}
	for (int t = 0; t < nt; t++)
		pthread_join(th[t], NULL);
	g_yield_hook = nullptr;
	g_alloc.thread_mode = false;
	g_sched = nullptr;
	sem_destroy(&sc.main_sem);
	for (int t = 0; t < nt; t++)
		sem_destroy(&sc.sems[t]);
	ctx.count("sched:decision_points", sc.decisions);
	ctx.logf("schedule: %llu decisions, choice hash %016llx", (unsigned long long)sc.decisions, (unsigned long long)sc.choice_hash.h);
	ctx.sig(strf("C18|interleaving|%016llx", (unsigned long long)sc.choice_hash.h));
}

static void threads_exec(Ctx &ctx)
{
	const Plan &plan = *ctx.plan;
	int nt = (int)plan.C("threads", 2);
	if (nt < 2)
		nt = 2;
	if (nt > MAXT)
		nt = MAXT;
	int prov = (int)plan.C("prov");
	ctx.nontrivial = plan.steps.size() >= 2;
	// keyring loaded and provider selected before the threads start, freed after they are joined.
	// The threaded run comes first and on its own freshly loaded keyring, so that the first use of
	// every shared key item happens under the interleaving (lazily initialised per-item state would
	// otherwise be warmed up by the reference run).
	SharedKeys K, Kseq;
	K.init(ctx, plan.rng);
	set_provider(prov);
	RunCtx thr(plan.steps.size());
	thr.plan = &plan;
	thr.keys = &K;
	run_threaded(ctx, thr, nt);

	// reference: the same scripts run one after another, on an identical but separate keyring
	Kseq.init(ctx, plan.rng);
	RunCtx seq(plan.steps.size());
	seq.plan = &plan;
	seq.keys = &Kseq;
	for (size_t i = 0; i < plan.steps.size(); i++)
		do_op(seq, i);

	for (size_t i = 0; i < plan.steps.size(); i++) {
		const Step &s = plan.steps[i];
		int key = (int)s.I("key") % SharedKeys::NK;
		const AlgInfo &a = ALGS[K.alg[key]];
		ctx.logf("op%zu T%lld %s key=%d seq=%d thr=%d", i, (long long)s.I("thread"), s.op.c_str(), key, seq.out[i].ret, thr.out[i].ret);
		if (!thr.out[i].done) {
			ctx.violation("C18", "op-not-executed", s.op, strf("op%zu was not executed in the threaded run", i));
			continue;
		}
		// C05 and C12 quantify over tokens and keys, not over who else is running: what the library returns while other
		// caller threads are inside it is judged by the same reference as anywhere else
		if (thr.out[i].done && s.op == "GEN" && thr.out[i].ret == 0) {
			TokenParts tpx;
			token_split(thr.out[i].token, tpx);
			if (a.fam != FAM_NONE && !ref_sig_valid(*K.truth[key], a, tpx.signing_input, tpx.seg[2])) {
				ctx.violation("C05", "generated-signature-invalid", strf("%s:%s:under-threads", a.name, prov == PROV_GNUTLS ? "gnutls" : "openssl"),
					      strf("op%zu: token generated while other threads were inside the library does not carry a valid signature per the reference: %s", i, show(thr.out[i].token, 200).c_str()));
				ctx.violation("C12", "signature-not-accepted-by-other-provider", strf("%s:%s:under-threads", a.name, prov == PROV_GNUTLS ? "gnutls" : "openssl"),
					      strf("op%zu: token generated while other threads were inside the library is rejected by the OpenSSL reference verifier: %s", i, show(thr.out[i].token, 200).c_str()));
			}
			if ((a.fam == FAM_HS || a.fam == FAM_RS || a.fam == FAM_ED) && seq.out[i].ret == 0 && seq.out[i].token != thr.out[i].token)
				ctx.violation("C12", "deterministic-token-differs", strf("%s:under-threads", a.name),
					      strf("op%zu: %s token differs between the interleaved and the one-after-another execution: %s vs %s", i, a.name, show(thr.out[i].token, 160).c_str(), show(seq.out[i].token, 160).c_str()));
		}
		// C01: a token that is invalid by construction (another token's MAC, a damaged signature) is accepted by nobody,
		// whoever else is running
		if (thr.out[i].done && s.op == "VERIFY" && thr.out[i].ret == 0 && (s.I("splice") || (s.I("damage") && seq.out[i].ret != 0)))
			ctx.violation("C01", "accepted-without-valid-signature", strf("%s:under-threads:%s", a.name, s.I("splice") ? "spliced-mac" : "damaged"),
				      strf("op%zu: a token that is invalid by construction (%s) was accepted while other threads were inside the library", i,
					   s.I("splice") ? "own header and payload, MAC of the token another thread is verifying" : "one character of a valid token changed"));
		if (thr.out[i].done && seq.out[i].ret == 0 && thr.out[i].ret != 0)
			ctx.violation("C05", s.op == "GEN" ? "generate-failed" : "valid-token-rejected", strf("%s:under-threads", a.name),
				      strf("op%zu (%s, %s) succeeds when the threads' calls are made one after another and fails (%d) under the interleaving", i, s.op.c_str(), a.name, thr.out[i].ret));
		if (seq.out[i].ret != thr.out[i].ret)
			ctx.violation("C18", "result-differs", strf("%s:%s", s.op.c_str(), a.name),
				      strf("op%zu (%s, thread %lld, %s) returned %d when the threads' calls are made one after another and %d under the interleaving", i, s.op.c_str(), (long long)s.I("thread"),
					   a.name, seq.out[i].ret, thr.out[i].ret));
		else if (s.op == "GEN" && seq.out[i].ret == 0) {
			bool deterministic = a.fam == FAM_HS || a.fam == FAM_RS || a.fam == FAM_ED || prov == PROV_OPENSSL;
			if (deterministic && seq.out[i].token != thr.out[i].token)
				ctx.violation("C18", "token-differs", a.name, strf("op%zu: sequential token %s, threaded token %s", i, show(seq.out[i].token, 160).c_str(), show(thr.out[i].token, 160).c_str()));
			else if (!deterministic) {
				TokenParts tp;
				token_split(thr.out[i].token, tp);
				if (!ref_sig_valid(*K.truth[key], a, tp.signing_input, tp.seg[2]))
					ctx.violation("C18", "token-invalid", a.name, strf("op%zu: token generated under the interleaving does not verify: %s", i, show(thr.out[i].token, 200).c_str()));
			}
		}
		ctx.sig(strf("C18|%s|%s|%d", s.op.c_str(), a.name, thr.out[i].ret));
	}
	set_provider(PROV_OPENSSL);
	K.fini();
	Kseq.fini();
	if (g_alloc.live_blocks())
		ctx.logf("live blocks after run: %llu", (unsigned long long)g_alloc.live_blocks());
}

extern const Profile PROFILE_THREADS = {"threads", threads_gen, threads_exec};
