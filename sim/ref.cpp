#include "ref.hpp"
#include "seams.hpp"
#include <openssl/hmac.h>
#include <openssl/pem.h>
#include <openssl/bn.h>
#include <openssl/ec.h>
#include <openssl/rsa.h>
#include <openssl/core_names.h>
#include <openssl/err.h>
#include <openssl/x509.h>
#include <sys/stat.h>
#include <unistd.h>

// Reference code runs on the same thread as libjwt and therefore shares OpenSSL's thread-local error
// queue with it; every entry point restores the queue to what it found.
struct ErrGuard {
	ErrGuard() { ERR_set_mark(); }
	~ErrGuard() { ERR_pop_to_mark(); }
};

// ================================================================ base64url
static const char B64URL[] = "ABCDEFGHIJKLMNOPQRSTUVWXYZabcdefghijklmnopqrstuvwxyz0123456789-_";

std::string b64url_encode(const std::string &in)
{
	std::string out;
	size_t i = 0, n = in.size();
	const unsigned char *p = (const unsigned char *)in.data();
	while (i + 3 <= n) {
		unsigned v = (p[i] << 16) | (p[i + 1] << 8) | p[i + 2];
		out.push_back(B64URL[(v >> 18) & 63]);
		out.push_back(B64URL[(v >> 12) & 63]);
		out.push_back(B64URL[(v >> 6) & 63]);
		out.push_back(B64URL[v & 63]);
		i += 3;
	}
	if (n - i == 1) {
		unsigned v = p[i] << 16;
		out.push_back(B64URL[(v >> 18) & 63]);
		out.push_back(B64URL[(v >> 12) & 63]);
	} else if (n - i == 2) {
		unsigned v = (p[i] << 16) | (p[i + 1] << 8);
		out.push_back(B64URL[(v >> 18) & 63]);
		out.push_back(B64URL[(v >> 12) & 63]);
		out.push_back(B64URL[(v >> 6) & 63]);
	}
	return out;
}

static int b64val(unsigned char c, bool url_only)
{
	if (c >= 'A' && c <= 'Z')
		return c - 'A';
	if (c >= 'a' && c <= 'z')
		return c - 'a' + 26;
	if (c >= '0' && c <= '9')
		return c - '0' + 52;
	if (c == '-')
		return 62;
	if (c == '_')
		return 63;
	if (!url_only) {
		if (c == '+')
			return 62;
		if (c == '/')
			return 63;
	}
	return -1;
}

bool b64url_decode_strict(const std::string &text, std::string &out)
{
	out.clear();
	if (text.size() % 4 == 1)
		return false;
	unsigned acc = 0;
	int nbits = 0;
	for (unsigned char c : text) {
		int v = b64val(c, true);
		if (v < 0)
			return false;
		acc = (acc << 6) | (unsigned)v;
		nbits += 6;
		if (nbits >= 8) {
			nbits -= 8;
			out.push_back((char)((acc >> nbits) & 0xff));
		}
	}
	if (nbits && (acc & ((1u << nbits) - 1)))
		return false; // non-canonical trailing bits
	return true;
}

bool b64_decode_lenient(const std::string &text, std::string &out)
{
	out.clear();
	unsigned acc = 0;
	int nbits = 0;
	for (unsigned char c : text) {
		if (c == '=')
			break;
		int v = b64val(c, false);
		if (v < 0)
			return false;
		acc = (acc << 6) | (unsigned)v;
		nbits += 6;
		if (nbits >= 8) {
			nbits -= 8;
			out.push_back((char)((acc >> nbits) & 0xff));
		}
	}
	return true;
}

// ================================================================ algorithms
const AlgInfo ALGS[] = {
	{JWT_ALG_NONE, "none", FAM_NONE, 0, 0, ""},
	{JWT_ALG_HS256, "HS256", FAM_HS, 256, 0, ""},
	{JWT_ALG_HS384, "HS384", FAM_HS, 384, 0, ""},
	{JWT_ALG_HS512, "HS512", FAM_HS, 512, 0, ""},
	{JWT_ALG_RS256, "RS256", FAM_RS, 256, 0, ""},
	{JWT_ALG_RS384, "RS384", FAM_RS, 384, 0, ""},
	{JWT_ALG_RS512, "RS512", FAM_RS, 512, 0, ""},
	{JWT_ALG_ES256, "ES256", FAM_ES, 256, 256, "P-256"},
	{JWT_ALG_ES384, "ES384", FAM_ES, 384, 384, "P-384"},
	{JWT_ALG_ES512, "ES512", FAM_ES, 512, 521, "P-521"},
	{JWT_ALG_PS256, "PS256", FAM_PS, 256, 0, ""},
	{JWT_ALG_PS384, "PS384", FAM_PS, 384, 0, ""},
	{JWT_ALG_PS512, "PS512", FAM_PS, 512, 0, ""},
	{JWT_ALG_ES256K, "ES256K", FAM_ES, 256, 256, "secp256k1"},
	{JWT_ALG_EDDSA, "EdDSA", FAM_ED, 0, 0, ""},
};
const int N_ALGS = (int)ARRAY_LEN(ALGS);

const AlgInfo *alg_by_name(const std::string &name)
{
	for (int i = 0; i < N_ALGS; i++)
		if (name == ALGS[i].name)
			return &ALGS[i];
	return NULL;
}

const AlgInfo *alg_by_id(int id)
{
	if (id < 0 || id >= N_ALGS)
		return NULL;
	return &ALGS[id];
}

const char *alg_name(int id)
{
	const AlgInfo *a = alg_by_id(id);
	if (a)
		return a->name;
	return id == JWT_ALG_INVAL ? "INVAL" : "?";
}

// ================================================================ keys
KeyTruth::~KeyTruth()
{
	if (pkey)
		EVP_PKEY_free(pkey);
}

KeyRef key_gen_oct(Rng &rng, size_t len)
{
	KeyRef k = std::make_shared<KeyTruth>();
	k->kty = K_OCT;
	k->oct = rng.bytes(len);
	k->bits = (int)len * 8;
	k->label = strf("oct%zu", len);
	return k;
}

static int crv_bits(const std::string &crv)
{
	if (crv == "P-256" || crv == "secp256k1")
		return 256;
	if (crv == "P-384")
		return 384;
	if (crv == "P-521")
		return 521;
	if (crv == "Ed25519")
		return 256;
	if (crv == "Ed448")
		return 456;
	if (crv == "brainpoolP512r1")
		return 512;
	if (crv == "secp224r1")
		return 224;
	return 0;
}

KeyRef key_gen_ec(const std::string &crv)
{
	ErrGuard eg;
	KeyRef k = std::make_shared<KeyTruth>();
	k->kty = K_EC;
	k->crv = crv;
	k->bits = crv_bits(crv);
	k->pkey = EVP_PKEY_Q_keygen(NULL, NULL, "EC", crv.c_str());
	k->label = "ec:" + crv;
	if (!k->pkey) {
		fprintf(stderr, "jwtsim: EC keygen failed for %s\n", crv.c_str());
		_exit(2);
	}
	return k;
}

KeyRef key_gen_okp(const std::string &crv)
{
	ErrGuard eg;
	KeyRef k = std::make_shared<KeyTruth>();
	k->kty = K_OKP;
	k->crv = crv;
	k->bits = crv_bits(crv);
	k->pkey = EVP_PKEY_Q_keygen(NULL, NULL, crv == "Ed448" ? "ED448" : "ED25519");
	k->label = "okp:" + crv;
	if (!k->pkey) {
		fprintf(stderr, "jwtsim: OKP keygen failed for %s\n", crv.c_str());
		_exit(2);
	}
	return k;
}

KeyRef key_rsa_fresh(int bits)
{
	ErrGuard eg;
	KeyRef k = std::make_shared<KeyTruth>();
	k->kty = K_RSA;
	k->bits = bits;
	k->pkey = EVP_PKEY_Q_keygen(NULL, NULL, "RSA", (size_t)bits);
	k->label = strf("rsa%d:fresh", bits);
	if (!k->pkey) {
		fprintf(stderr, "jwtsim: RSA keygen failed for %d\n", bits);
		_exit(2);
	}
	return k;
}

const int RSA_POOL_BITS[] = {512, 1024, 2040, 2047, 2048, 3072, 4096, 2056, 2184, 3584, 4088, 2052, 2050, 3076, 12288};
const int N_RSA_POOL_BITS = (int)ARRAY_LEN(RSA_POOL_BITS);
const int RSA_POOL_PER_SIZE = 2;

// The pool is committed under /verif/keys (test material, generated once with the simulated entropy
// stream): OpenSSL's RSA key generation turned out not to be a pure function of the RAND stream (the
// same stream gives a different modulus on the first call than on later calls in one process), so
// nothing generates RSA keys at run time; a missing file is regenerated by `jwtsim setup`.
static std::string cache_dir()
{
	const char *e = getenv("VERIF_CACHE");
	return e ? e : "/verif/keys";
}

static std::string pool_path(int bits, int idx)
{
	return strf("%s/rsa/rsa-%d-%d.pem", cache_dir().c_str(), bits, idx);
}

void rsa_pool_ensure(bool verbose)
{
	mkdir(cache_dir().c_str(), 0755);
	mkdir((cache_dir() + "/rsa").c_str(), 0755);
	for (int b = 0; b < N_RSA_POOL_BITS; b++)
		for (int i = 0; i < RSA_POOL_PER_SIZE; i++) {
			std::string p = pool_path(RSA_POOL_BITS[b], i);
			if (access(p.c_str(), R_OK) == 0)
				continue;
			sim_entropy_point(mix64(0x525341, (uint64_t)RSA_POOL_BITS[b] * 16 + i));
			EVP_PKEY *k = EVP_PKEY_Q_keygen(NULL, NULL, "RSA", (size_t)RSA_POOL_BITS[b]);
			if (k && EVP_PKEY_get_bits(k) != RSA_POOL_BITS[b]) {
				// (OpenSSL rounds some odd sizes down: the model would reason about a size the key does not have)
				fprintf(stderr, "jwtsim: RSA pool keygen gave %d bits for %d\n", EVP_PKEY_get_bits(k), RSA_POOL_BITS[b]);
				_exit(2);
			}
			if (!k) {
				fprintf(stderr, "jwtsim: RSA pool keygen failed (%d)\n", RSA_POOL_BITS[b]);
				_exit(2);
			}
			std::string tmp = p + strf(".tmp%d", (int)getpid());
			FILE *f = fopen(tmp.c_str(), "w");
			if (!f || !PEM_write_PrivateKey(f, k, NULL, NULL, 0, NULL, NULL)) {
				fprintf(stderr, "jwtsim: cannot write %s\n", tmp.c_str());
				_exit(2);
			}
			fclose(f);
			rename(tmp.c_str(), p.c_str());
			EVP_PKEY_free(k);
			if (verbose)
				fprintf(stderr, "jwtsim: generated %s\n", p.c_str());
		}
}

static std::map<int, EVP_PKEY *> g_pool;

KeyRef key_rsa_pool(int bits, int idx)
{
	ErrGuard eg;
	idx = ((idx % RSA_POOL_PER_SIZE) + RSA_POOL_PER_SIZE) % RSA_POOL_PER_SIZE;
	int key = bits * 16 + idx;
	EVP_PKEY *pk = NULL;
	auto it = g_pool.find(key);
	if (it != g_pool.end())
		pk = it->second;
	else {
		std::string p = pool_path(bits, idx);
		FILE *f = fopen(p.c_str(), "r");
		if (!f) {
			rsa_pool_ensure(false);
			f = fopen(p.c_str(), "r");
		}
		if (f) {
			pk = PEM_read_PrivateKey(f, NULL, NULL, NULL);
			fclose(f);
		}
		if (!pk) {
			fprintf(stderr, "jwtsim: cannot load RSA pool key %s\n", p.c_str());
			_exit(2);
		}
		g_pool[key] = pk;
	}
	KeyRef k = std::make_shared<KeyTruth>();
	k->kty = K_RSA;
	k->bits = bits;
	// A private copy per use: an RSA object caches its blinding state after the first private
	// operation (which draws entropy), so sharing one object across runs made a run's entropy
	// consumption - and with it PSS salts and ECDSA nonces later in the step - depend on what the
	// worker had executed before.
	k->pkey = EVP_PKEY_dup(pk);
	if (!k->pkey) {
		fprintf(stderr, "jwtsim: EVP_PKEY_dup failed\n");
		_exit(2);
	}
	k->label = strf("rsa%d#%d", bits, idx);
	return k;
}

static std::string bn_param(EVP_PKEY *k, const char *name)
{
	BIGNUM *bn = NULL;
	if (!EVP_PKEY_get_bn_param(k, name, &bn) || !bn)
		return std::string();
	std::string r((size_t)BN_num_bytes(bn), '\0');
	if (!r.empty())
		BN_bn2bin(bn, (unsigned char *)&r[0]);
	BN_clear_free(bn);
	return r;
}

static std::string lpad(const std::string &s, size_t width)
{
	if (s.size() >= width)
		return s;
	return std::string(width - s.size(), '\0') + s;
}

static std::string okp_raw(EVP_PKEY *k, bool priv)
{
	unsigned char buf[128];
	size_t len = sizeof buf;
	int ok = priv ? EVP_PKEY_get_raw_private_key(k, buf, &len) : EVP_PKEY_get_raw_public_key(k, buf, &len);
	if (!ok)
		return std::string();
	return std::string((char *)buf, len);
}

std::string json_text(json_t *j)
{
	char *s = json_dumps(j, JSON_COMPACT | JSON_SORT_KEYS | JSON_ENCODE_ANY);
	std::string r = s ? s : "";
	sim_harness_free(s);
	return r;
}

static void set_b64(json_t *o, const char *name, const std::string &bytes)
{
	json_object_set_new(o, name, json_string(b64url_encode(bytes).c_str()));
}

json_t *jwk_export_json(const KeyTruth &k, const JwkOpts &o)
{
	ErrGuard eg;
	json_t *j = json_object();
	std::string z((size_t)o.pad_zeros, '\0');
	switch (k.kty) {
	case K_OCT:
		json_object_set_new(j, "kty", json_string("oct"));
		if (o.oct_pad) {
			std::string t = b64url_encode(k.oct);
			if (o.oct_pad == 1)
				t += std::string((4 - t.size() % 4) % 4, '=');
			else
				t += "=AAAAAAAAAAAAAAAAAAAAAAAAAAAAAAAAAAAAAAAAAAAAAAAAAAAAAAAAAAAAAAAAAAAAAAAA";
			json_object_set_new(j, "k", json_string(t.c_str()));
		} else
			set_b64(j, "k", k.oct);
		break;
	case K_RSA: {
		json_object_set_new(j, "kty", json_string("RSA"));
		set_b64(j, "n", z + bn_param(k.pkey, OSSL_PKEY_PARAM_RSA_N));
		set_b64(j, "e", z + bn_param(k.pkey, OSSL_PKEY_PARAM_RSA_E));
		if (o.priv) {
			set_b64(j, "d", z + bn_param(k.pkey, OSSL_PKEY_PARAM_RSA_D));
			if (!o.rsa_partial_priv) {
				set_b64(j, "p", z + bn_param(k.pkey, OSSL_PKEY_PARAM_RSA_FACTOR1));
				set_b64(j, "q", z + bn_param(k.pkey, OSSL_PKEY_PARAM_RSA_FACTOR2));
				set_b64(j, "dp", z + bn_param(k.pkey, OSSL_PKEY_PARAM_RSA_EXPONENT1));
				set_b64(j, "dq", z + bn_param(k.pkey, OSSL_PKEY_PARAM_RSA_EXPONENT2));
				set_b64(j, "qi", z + bn_param(k.pkey, OSSL_PKEY_PARAM_RSA_COEFFICIENT1));
			}
		}
		break;
	}
	case K_EC: {
		json_object_set_new(j, "kty", json_string("EC"));
		json_object_set_new(j, "crv", json_string(k.crv.c_str()));
		size_t w = o.ec_minimal ? 0 : (size_t)(k.bits + 7) / 8;
		set_b64(j, "x", z + lpad(bn_param(k.pkey, OSSL_PKEY_PARAM_EC_PUB_X), w));
		set_b64(j, "y", z + lpad(bn_param(k.pkey, OSSL_PKEY_PARAM_EC_PUB_Y), w));
		if (o.priv)
			set_b64(j, "d", z + lpad(bn_param(k.pkey, OSSL_PKEY_PARAM_PRIV_KEY), w));
		break;
	}
	case K_OKP:
		json_object_set_new(j, "kty", json_string("OKP"));
		json_object_set_new(j, "crv", json_string(k.crv.c_str()));
		set_b64(j, "x", okp_raw(k.pkey, false));
		if (o.priv)
			set_b64(j, "d", okp_raw(k.pkey, true));
		break;
	}
	if (o.has_alg) {
		if (!o.alg_raw.empty()) {
			json_t *v = json_loads(o.alg_raw.c_str(), JSON_DECODE_ANY, NULL);
			if (v)
				json_object_set_new(j, "alg", v);
		} else
			json_object_set_new(j, "alg", json_string(o.alg.c_str()));
	}
	if (o.has_kid)
		json_object_set_new(j, "kid", json_string(o.kid.c_str()));
	if (!o.use.empty())
		json_object_set_new(j, "use", json_string(o.use.c_str()));
	if (!o.key_ops.empty()) {
		json_t *a = json_array();
		for (auto &s : o.key_ops)
			json_array_append_new(a, s[0] == '\x01' ? json_loads(s.c_str() + 1, JSON_DECODE_ANY, NULL) : json_string(s.c_str())); // \x01 + raw JSON: an entry that is not a string
		json_object_set_new(j, "key_ops", a);
	}
	for (auto &e : o.extra) {
		json_t *v = json_loads(e.second.c_str(), JSON_DECODE_ANY, NULL);
		if (v && !json_object_get(j, e.first.c_str()))
			json_object_set_new(j, e.first.c_str(), v);
		else if (v)
			json_decref(v);
	}
	return j;
}

std::string jwk_export(const KeyTruth &k, const JwkOpts &o)
{
	json_t *j = jwk_export_json(k, o);
	std::string r = json_text(j);
	json_decref(j);
	return r;
}

static bool params_equal(EVP_PKEY *a, EVP_PKEY *b, const char *const *names)
{
	for (int i = 0; names[i]; i++) {
		std::string x = bn_param(a, names[i]), y = bn_param(b, names[i]);
		if (x.empty() || x != y)
			return false;
	}
	return true;
}

static std::string group_name(EVP_PKEY *k)
{
	char buf[80];
	size_t len = 0;
	if (!EVP_PKEY_get_utf8_string_param(k, OSSL_PKEY_PARAM_GROUP_NAME, buf, sizeof buf, &len))
		return "";
	return std::string(buf, len);
}

bool key_pub_equal(const KeyTruth &k, EVP_PKEY *other)
{
	ErrGuard eg;
	if (!other || !k.pkey)
		return false;
	switch (k.kty) {
	case K_RSA: {
		static const char *const n[] = {OSSL_PKEY_PARAM_RSA_N, OSSL_PKEY_PARAM_RSA_E, NULL};
		int id = EVP_PKEY_get_base_id(other);
		if (id != EVP_PKEY_RSA && id != EVP_PKEY_RSA_PSS)
			return false;
		return params_equal(k.pkey, other, n);
	}
	case K_EC: {
		static const char *const n[] = {OSSL_PKEY_PARAM_EC_PUB_X, OSSL_PKEY_PARAM_EC_PUB_Y, NULL};
		if (EVP_PKEY_get_base_id(other) != EVP_PKEY_EC)
			return false;
		if (group_name(k.pkey) != group_name(other))
			return false;
		return params_equal(k.pkey, other, n);
	}
	case K_OKP: {
		if (EVP_PKEY_get_base_id(other) != EVP_PKEY_get_base_id(k.pkey))
			return false;
		std::string a = okp_raw(k.pkey, false), b = okp_raw(other, false);
		return !a.empty() && a == b;
	}
	default:
		return false;
	}
}

bool key_priv_equal(const KeyTruth &k, EVP_PKEY *other)
{
	ErrGuard eg;
	if (!key_pub_equal(k, other))
		return false;
	switch (k.kty) {
	case K_RSA: {
		static const char *const n[] = {OSSL_PKEY_PARAM_RSA_D,	       OSSL_PKEY_PARAM_RSA_FACTOR1,
						OSSL_PKEY_PARAM_RSA_FACTOR2,   OSSL_PKEY_PARAM_RSA_EXPONENT1,
						OSSL_PKEY_PARAM_RSA_EXPONENT2, OSSL_PKEY_PARAM_RSA_COEFFICIENT1,
						NULL};
		return params_equal(k.pkey, other, n);
	}
	case K_EC: {
		static const char *const n[] = {OSSL_PKEY_PARAM_PRIV_KEY, NULL};
		return params_equal(k.pkey, other, n);
	}
	case K_OKP: {
		std::string a = okp_raw(k.pkey, true), b = okp_raw(other, true);
		return !a.empty() && a == b;
	}
	default:
		return false;
	}
}

EVP_PKEY *pem_to_pkey(const char *pem, bool priv)
{
	if (!pem)
		return NULL;
	// The reference shares the calling thread's OpenSSL error queue with libjwt. It must leave the
	// queue exactly as it found it (mark / pop-to-mark), neither adding entries nor clearing what
	// the library left behind - that queue is hidden state some checks look for.
	ERR_set_mark();
	BIO *b = BIO_new_mem_buf(pem, -1);
	if (!b)
		return NULL;
	EVP_PKEY *k = priv ? PEM_read_bio_PrivateKey(b, NULL, NULL, NULL) : PEM_read_bio_PUBKEY(b, NULL, NULL, NULL);
	BIO_free(b);
	ERR_pop_to_mark();
	return k;
}

std::string key_pub_pem(const KeyTruth &k)
{
	ErrGuard eg;
	if (!k.pkey)
		return "";
	BIO *b = BIO_new(BIO_s_mem());
	PEM_write_bio_PUBKEY(b, k.pkey);
	char *p = NULL;
	long n = BIO_get_mem_data(b, &p);
	std::string r(p, (size_t)n);
	BIO_free(b);
	return r;
}

std::string key_pub_der(const KeyTruth &k)
{
	ErrGuard eg;
	if (!k.pkey)
		return "";
	unsigned char *d = NULL;
	int n = i2d_PUBKEY(k.pkey, &d);
	if (n <= 0)
		return "";
	std::string r((char *)d, (size_t)n);
	OPENSSL_free(d);
	return r;
}

std::string key_rsa_n(const KeyTruth &k)
{
	ErrGuard eg;
	if (k.kty != K_RSA)
		return "";
	return bn_param(k.pkey, OSSL_PKEY_PARAM_RSA_N);
}

// ================================================================ signatures
static const EVP_MD *md_for(int bits)
{
	switch (bits) {
	case 256:
		return EVP_sha256();
	case 384:
		return EVP_sha384();
	case 512:
		return EVP_sha512();
	}
	return NULL;
}

std::string ref_hmac(int hash_bits, const std::string &key, const std::string &msg)
{
	ErrGuard eg;
	unsigned char out[EVP_MAX_MD_SIZE];
	unsigned int len = 0;
	static const unsigned char empty = 0;
	const void *kp = key.empty() ? (const void *)&empty : (const void *)key.data();
	if (!HMAC(md_for(hash_bits), kp, (int)key.size(), (const unsigned char *)msg.data(), msg.size(), out, &len))
		return "";
	return std::string((char *)out, len);
}

bool key_family_ok(const KeyTruth &k, const AlgInfo &a)
{
	switch (a.fam) {
	case FAM_HS:
		return k.kty == K_OCT;
	case FAM_RS:
	case FAM_PS:
		return k.kty == K_RSA;
	case FAM_ES:
		return k.kty == K_EC;
	case FAM_ED:
		return k.kty == K_OKP;
	default:
		return false;
	}
}

bool key_strength_ok(const KeyTruth &k, const AlgInfo &a)
{
	if (!key_family_ok(k, a))
		return false;
	switch (a.fam) {
	case FAM_HS:
		return k.bits >= a.hash_bits;
	case FAM_RS:
	case FAM_PS:
		return k.bits >= 2048;
	case FAM_ES:
		return k.bits == a.ec_bits;
	case FAM_ED:
		return k.crv == "Ed25519" || k.crv == "Ed448";
	default:
		return false;
	}
}

static bool ecdsa_raw_to_der(const std::string &raw, size_t w, std::string &der)
{
	if (raw.size() != 2 * w)
		return false;
	ECDSA_SIG *s = ECDSA_SIG_new();
	BIGNUM *r = BN_bin2bn((const unsigned char *)raw.data(), (int)w, NULL);
	BIGNUM *ss = BN_bin2bn((const unsigned char *)raw.data() + w, (int)w, NULL);
	ECDSA_SIG_set0(s, r, ss);
	unsigned char *p = NULL;
	int n = i2d_ECDSA_SIG(s, &p);
	ECDSA_SIG_free(s);
	if (n <= 0)
		return false;
	der.assign((char *)p, (size_t)n);
	OPENSSL_free(p);
	return true;
}

bool ref_verify_raw(const KeyTruth &k, const AlgInfo &a, const std::string &msg, const std::string &sig)
{
	ErrGuard eg;
	if (!key_family_ok(k, a))
		return false;
	if (a.fam == FAM_HS) {
		std::string m = ref_hmac(a.hash_bits, k.oct, msg);
		return !m.empty() && m == sig;
	}
	std::string s = sig;
	if (a.fam == FAM_ES) {
		// C02/C09 state the EC rule by curve *size* (256 for ES256 and ES256K, 384, 521), so a
		// secp256k1 key under ES256 (or P-256 under ES256K) is inside the statement; only the size
		// has to match.
		if (k.bits != a.ec_bits)
			return false;
		if (!ecdsa_raw_to_der(sig, (size_t)(k.bits + 7) / 8, s))
			return false;
	}
	ERR_set_mark();
	EVP_MD_CTX *c = EVP_MD_CTX_new();
	EVP_PKEY_CTX *pc = NULL;
	bool ok = false;
	const EVP_MD *md = a.fam == FAM_ED ? NULL : md_for(a.hash_bits);
	if (EVP_DigestVerifyInit(c, &pc, md, NULL, k.pkey) == 1) {
		bool cfg = true;
		if (a.fam == FAM_PS) {
			cfg = EVP_PKEY_CTX_set_rsa_padding(pc, RSA_PKCS1_PSS_PADDING) > 0 &&
			      EVP_PKEY_CTX_set_rsa_pss_saltlen(pc, RSA_PSS_SALTLEN_AUTO) > 0;
		}
		if (cfg && EVP_DigestVerify(c, (const unsigned char *)s.data(), s.size(),
					    (const unsigned char *)msg.data(), msg.size()) == 1)
			ok = true;
	}
	EVP_MD_CTX_free(c);
	ERR_pop_to_mark();
	return ok;
}

bool ref_sign(const KeyTruth &k, const AlgInfo &a, const std::string &msg, std::string &sig)
{
	ErrGuard eg;
	sig.clear();
	if (!key_family_ok(k, a))
		return false;
	if (a.fam == FAM_HS) {
		sig = ref_hmac(a.hash_bits, k.oct, msg);
		return !sig.empty();
	}
	ERR_set_mark();
	EVP_MD_CTX *c = EVP_MD_CTX_new();
	EVP_PKEY_CTX *pc = NULL;
	bool ok = false;
	const EVP_MD *md = a.fam == FAM_ED ? NULL : md_for(a.hash_bits);
	if (EVP_DigestSignInit(c, &pc, md, NULL, k.pkey) == 1) {
		bool cfg = true;
		if (a.fam == FAM_PS)
			cfg = EVP_PKEY_CTX_set_rsa_padding(pc, RSA_PKCS1_PSS_PADDING) > 0 &&
			      EVP_PKEY_CTX_set_rsa_pss_saltlen(pc, RSA_PSS_SALTLEN_DIGEST) > 0;
		size_t n = 0;
		if (cfg && EVP_DigestSign(c, NULL, &n, (const unsigned char *)msg.data(), msg.size()) == 1) {
			std::string buf(n, '\0');
			if (EVP_DigestSign(c, (unsigned char *)&buf[0], &n, (const unsigned char *)msg.data(),
					   msg.size()) == 1) {
				buf.resize(n);
				sig = buf;
				ok = true;
			}
		}
	}
	EVP_MD_CTX_free(c);
	ERR_pop_to_mark();
	if (ok && a.fam == FAM_ES) {
		const unsigned char *p = (const unsigned char *)sig.data();
		ECDSA_SIG *es = d2i_ECDSA_SIG(NULL, &p, (long)sig.size());
		if (!es)
			return false;
		const BIGNUM *r, *s;
		ECDSA_SIG_get0(es, &r, &s);
		size_t w = (size_t)(k.bits + 7) / 8;
		std::string rr((size_t)BN_num_bytes(r), '\0'), ss((size_t)BN_num_bytes(s), '\0');
		if (!rr.empty())
			BN_bn2bin(r, (unsigned char *)&rr[0]);
		if (!ss.empty())
			BN_bn2bin(s, (unsigned char *)&ss[0]);
		ECDSA_SIG_free(es);
		sig = lpad(rr, w) + lpad(ss, w);
	}
	return ok;
}

bool ref_sig_valid(const KeyTruth &k, const AlgInfo &a, const std::string &signing_input,
		   const std::string &sig_b64)
{
	std::string sig;
	if (!b64_decode_lenient(sig_b64, sig))
		return false;
	if (sig.empty())
		return false;
	return ref_verify_raw(k, a, signing_input, sig);
}

// ================================================================ tokens
TokenParts::~TokenParts()
{
	if (hdr)
		json_decref(hdr);
	if (pay)
		json_decref(pay);
}

static json_t *lenient_json(const std::string &bytes, size_t flags)
{
	json_t *j = json_loadb(bytes.data(), bytes.size(), flags, NULL);
	if (j)
		return j;
	size_t z = bytes.find('\0');
	if (z != std::string::npos && z > 0)
		j = json_loadb(bytes.data(), z, flags, NULL);
	return j;
}

void token_split(const std::string &tok, TokenParts &tp)
{
	size_t d1 = tok.find('.');
	tp.dots = 0;
	for (char c : tok)
		if (c == '.')
			tp.dots++;
	if (d1 == std::string::npos)
		return;
	size_t d2 = tok.find('.', d1 + 1);
	if (d2 == std::string::npos)
		return;
	tp.has2 = true;
	tp.seg[0] = tok.substr(0, d1);
	tp.seg[1] = tok.substr(d1 + 1, d2 - d1 - 1);
	tp.seg[2] = tok.substr(d2 + 1);
	tp.signing_input = tok.substr(0, d2);
	std::string hb, pb;
	if (b64_decode_lenient(tp.seg[0], hb) && !hb.empty()) {
		json_t *h = lenient_json(hb, 0);
		if (h && json_is_object(h)) {
			tp.hdr_ok = true;
			tp.hdr = h;
			json_t *a = json_object_get(h, "alg");
			if (a) {
				tp.alg_present = true;
				if (json_is_string(a)) {
					tp.alg_is_string = true;
					tp.alg.assign(json_string_value(a), json_string_length(a));
				}
			}
		} else if (h)
			json_decref(h);
	}
	if (b64_decode_lenient(tp.seg[1], pb) && !pb.empty()) {
		json_t *p = lenient_json(pb, JSON_DECODE_ANY);
		if (p) {
			tp.pay_ok = true;
			tp.pay = p;
		}
	}
}
