// Profile "typedmap" (C15): set/get/del histories on builder headers and claims and on the jwt_t
// handed to generate and verify callbacks, against a typed-map model written from the statement.
// The whole-object JSON get is the state snapshot, compared after every step.
#include "lib.hpp"
#include <limits.h>

static const char *NAMES[] = {"a", "b", "c", "ab", "", NULL, "exp", "alg", "typ", "k e y", "\xc3\xbc\xe2\x82\xac", "a.b", "0"};
static const int N_NAMES = (int)ARRAY_LEN(NAMES);
static const long INTS[] = {0, 1, -1, 42, LONG_MAX, LONG_MIN, 2147483647L, -2147483648L, 1700000000L};
static const char *JSONS_OK[] = {"{}", "[]", "{\"x\":1}", "[1,2,3]", "{\"a\":{\"b\":[null,true,1.5,\"s\"]}}", "[[[]]]", "{\"a\":\"new\",\"zz\":false}",
				 "{\"b\":2,\"c\":[1],\"q\":null}", " { \"sp\" : 1 } ", "{\"\xc3\xa9\":\"\xf0\x9f\x98\x80\"}",
				 "{\"a\":1.5,\"b\":-0.0,\"c\":1e300}", "{\"ab\":2.0,\"exp\":1700000000.5,\"a\":null}",
				 // members of the small colliding alphabet that are present but null / falsy / empty: "present" is about the name, not the value
				 "{\"a\":null,\"b\":null,\"c\":null,\"ab\":null}", "{\"a\":0,\"b\":false,\"c\":\"\",\"ab\":[]}", "{\"a\":{},\"b\":0.0,\"c\":\"c\",\"ab\":true}"};
static const char *JSONS_BAD[] = {"", "{", "nope", "{\"a\":}", "5", "\"str\"", "true", "null", "{\"a\":1,}", "[1,", "{'a':1}", "1.5"};

enum { T_INT = 0, T_STR, T_BOOL, T_JSON };

static std::string str_value(int sel)
{
	switch (sel % 8) {
	case 0:
		return "";
	case 1:
		return "v";
	case 2:
		return "hello world";
	case 3:
		return std::string(4096, 'x');
	case 4:
		return "\xc3\xbc" "n\xc3\xaf" "c\xf0\x9f\x98\x80" "de";
	case 5:
		return "quote\"back\\slash\n\ttab";
	case 6:
		return "1700000000";
	default:
		return "true";
	}
}

static Step gen_op(Rng &r)
{
	Step s;
	int k = (int)r.below(10);
	if (r.chance(1, 12)) {
		// the builder is used for what it is for: generating leaves its maps as they are
		s = Step("GENERATE");
		s.set("hdr", 0);
		s.set("name", 0);
		return s;
	}
	if (r.chance(1, 14)) {
		// a refused call that leaves the builder's error flag set (only meaningful on the builder target)
		s = Step("ERRFLAG");
		s.set("kind", r.range(0, 2));
		s.set("clear", r.chance(1, 3) ? 1 : 0);
		s.set("hdr", 0);
		s.set("name", 0);
		return s;
	}
	if (k < 5) {
		s = Step("SET");
		s.set("type", r.range(0, 3));
		s.set("replace", r.chance(1, 2) ? 1 : 0);
		s.set("val", (int64_t)r.below(64));
		if (r.chance(1, 8))
			s.set("badjson", 1);
	} else if (k < 8) {
		s = Step("GET");
		s.set("type", r.range(0, 3));
	} else
		s = Step("DEL");
	s.set("hdr", r.chance(1, 2) ? 1 : 0);
	// small colliding alphabet, "" and NULL less often
	int n = r.chance(3, 4) ? (int)r.below(4) : (int)r.below((uint64_t)N_NAMES);
	// whole-object merges (no name) are the only way a null member gets in, and the merge rules are where the map is least obvious
	if (s.op == "SET" && s.I("type") == 3 && r.chance(1, 3))
		n = r.chance(1, 2) ? 4 : 5;
	s.set("name", n);
	// the application keeps its jwt_value_t from the previous SET (GET) and only flips what it wants changed:
	// the retry "EXIST -> replace = 1 -> call again", the poll "NOEXIST ... call again"
	if (s.op != "DEL" && r.chance(1, 5))
		s.set("carry", 1);
	return s;
}

static void typedmap_gen(Rng &r, Plan &p, Tier tier, uint64_t index)
{
	(void)index;
	p.cfg["target"] = Val((int64_t)r.below(3)); // 0 builder, 1 generate callback, 2 verify callback
	bool faults = r.chance(1, 4);
	p.cfg["faults"] = Val((int64_t)faults);
	int n = (int)r.range(5, tier == QUICK ? 40 : 60);
	for (int i = 0; i < n; i++) {
		Step s = gen_op(r);
		s.uid = (uint64_t)i + 1;
		if (faults && r.chance(1, 3))
			s.set("failalloc", r.chance(1, 2) ? r.range(1, 6) : r.range(1, 30)); // (never inside jansson's parser or serializer)
		p.steps.push_back(s);
	}
}

// ---------------------------------------------------------------- target abstraction
struct MapTarget {
	jwt_builder_t *b = nullptr;
	jwt_t *j = nullptr;
	jwt_value_error_t set(bool hdr, jwt_value_t *v)
	{
		if (b)
			return hdr ? jwt_builder_header_set(b, v) : jwt_builder_claim_set(b, v);
		return hdr ? jwt_header_set(j, v) : jwt_claim_set(j, v);
	}
	jwt_value_error_t get(bool hdr, jwt_value_t *v)
	{
		if (b)
			return hdr ? jwt_builder_header_get(b, v) : jwt_builder_claim_get(b, v);
		return hdr ? jwt_header_get(j, v) : jwt_claim_get(j, v);
	}
	jwt_value_error_t del(bool hdr, const char *name)
	{
		if (b)
			return hdr ? jwt_builder_header_del(b, name) : jwt_builder_claim_del(b, name);
		return hdr ? jwt_header_del(j, name) : jwt_claim_del(j, name);
	}
	const char *kind() const { return b ? "builder" : "jwt_t"; }
};

struct MapRun {
	Ctx *ctx;
	MapTarget t;
	json_t *model[2]; // [0] claims, [1] headers
	const char *where;
	int steps_done = 0;
	// the value structures of the previous SET and GET, as an application that re-uses them would hold them
	bool have_set = false, have_get = false;
	jwt_value_t last_set, last_get;
	Step last_set_step, last_get_step;
	std::string last_set_sv; // storage the kept value points into
};

static json_t *snapshot(MapTarget &t, bool hdr, int &rc)
{
	jwt_value_t jv;
	jv_get(&jv, JWT_VALUE_JSON, NULL);
	rc = t.get(hdr, &jv);
	if (rc != JWT_VALUE_ERR_NONE || !jv.json_val)
		return NULL;
	json_t *j = json_loads(jv.json_val, JSON_DECODE_ANY, NULL);
	sim_harness_free(jv.json_val);
	return j;
}

static void compare_state(MapRun &mr, size_t si, const std::string &opdesc)
{
	Ctx &ctx = *mr.ctx;
	for (int h = 0; h < 2; h++) {
		int rc;
		json_t *s = snapshot(mr.t, h == 1, rc);
		if (!s || !json_equal(s, mr.model[h])) {
			std::string got = s ? json_text(s) : strf("(get failed rc=%s)", verr_name(rc));
			ctx.violation("C15", "state", strf("%s:%s:%s", mr.where, h ? "headers" : "claims", opdesc.substr(0, opdesc.find(' ')).c_str()),
				      strf("after step %zu (%s) on %s the %s are %s but the typed-map model has %s", si, opdesc.c_str(), mr.t.kind(), h ? "headers" : "claims",
					   show(got, 300).c_str(), show(json_text(mr.model[h]), 300).c_str()));
			// resynchronise so that one divergence is reported once
			if (s) {
				json_decref(mr.model[h]);
				mr.model[h] = json_deep_copy(s);
			}
		}
		if (s)
			json_decref(s);
	}
}

static void run_op(MapRun &mr, const Step &s, size_t si)
{
	Ctx &ctx = *mr.ctx;
	bool hdr = s.I("hdr") != 0;
	json_t *m = mr.model[hdr ? 1 : 0];
	const char *name = NAMES[(uint64_t)s.I("name") % N_NAMES];
	bool noname = !name || !*name;
	int64_t fail_at = s.I("failalloc");
	std::string desc;
	int rc = 0, want = JWT_VALUE_ERR_NONE;
	bool fired = false;
	json_t *before = NULL;
	bool dontcare_rc = false;

	if (s.op == "GENERATE") {
		mr.steps_done++;
		if (!mr.t.b)
			return;
		char *t;
		{
			Armed a;
			t = jwt_builder_generate(mr.t.b);
		}
		ctx.logf("GENERATE -> %s", t ? "token" : "NULL");
		if (t)
			sim_harness_free(t);
		else
			jwt_builder_error_clear(mr.t.b);
		ctx.sig(strf("C15|%s|GENERATE|%d", mr.where, t != NULL));
		compare_state(mr, si, "GENERATE");
		return;
	}
	if (s.op == "ERRFLAG") {
		mr.steps_done++;
		if (!mr.t.b)
			return;
		int kind = (int)s.I("kind");
		int r0;
		{
			Armed a;
			if (kind == 0)
				r0 = jwt_builder_setkey(mr.t.b, JWT_ALG_HS256, NULL); // algorithm without a key: refused
			else if (kind == 1)
				r0 = jwt_builder_setcb(mr.t.b, NULL, &mr); // context without a callback: refused
			else
				r0 = jwt_builder_setkey(mr.t.b, JWT_ALG_INVAL, NULL);
		}
		int flag = jwt_builder_error(mr.t.b);
		if (s.I("clear"))
			jwt_builder_error_clear(mr.t.b);
		ctx.logf("ERRFLAG kind=%d -> %d, builder error flag %d%s", kind, r0, flag, s.I("clear") ? ", cleared" : "");
		ctx.sig(strf("C15|%s|ERRFLAG|%d|%d|%d", mr.where, kind, r0 != 0, (int)s.I("clear")));
		if (r0 != 0 && !s.I("clear"))
			ctx.count("probe:map_operations_follow_with_builder_error_flag_set");
		compare_state(mr, si, "ERRFLAG");
		return;
	}
	// carry: this step re-issues the previous SET (GET) with the very jwt_value_t the application still holds
	const Step *eff = &s;
	bool carry = false;
	if (s.I("carry")) {
		if (s.op == "SET" && mr.have_set) {
			eff = &mr.last_set_step;
			carry = true;
		} else if (s.op == "GET" && mr.have_get) {
			eff = &mr.last_get_step;
			carry = true;
		}
	}
	if (carry) {
		hdr = eff->I("hdr") != 0;
		m = mr.model[hdr ? 1 : 0];
		name = NAMES[(uint64_t)eff->I("name") % N_NAMES];
		noname = !name || !*name;
		ctx.count("probe:value_struct_reused_without_reinitialising");
	}
	before = fail_at ? json_deep_copy(m) : NULL;
	if (s.op == "SET") {
		int type = (int)eff->I("type");
		int replace = carry ? 1 : (int)s.I("replace");
		int sel = (int)eff->I("val");
		jwt_value_t jv;
		json_t *newval = NULL;
		std::string sv;
		if (carry) {
			jv = mr.last_set;
			jv.replace = 1;
			sv = mr.last_set_sv;
			switch (type) {
			case T_INT:
				newval = json_integer(jv.int_val);
				break;
			case T_STR:
				newval = json_string(sv.c_str());
				break;
			case T_BOOL:
				newval = json_boolean(sel % 2);
				break;
			default:
				newval = eff->I("badjson") ? NULL : json_loads(sv.c_str(), 0, NULL);
			}
		} else
		switch (type) {
		case T_INT:
			jv_set_int(&jv, name, INTS[sel % (int)ARRAY_LEN(INTS)], replace);
			newval = json_integer(jv.int_val);
			break;
		case T_STR:
			sv = str_value(sel);
			jv_set_str(&jv, name, sv.c_str(), replace);
			newval = json_string(sv.c_str());
			break;
		case T_BOOL:
			jv_set_bool(&jv, name, sel % 2, replace);
			newval = json_boolean(sel % 2);
			break;
		default: {
			bool bad = s.I("badjson") != 0;
			sv = bad ? JSONS_BAD[sel % (int)ARRAY_LEN(JSONS_BAD)] : JSONS_OK[sel % (int)ARRAY_LEN(JSONS_OK)];
			jv_set_json(&jv, name, sv.c_str(), replace);
			newval = bad ? NULL : json_loads(sv.c_str(), 0, NULL);
		}
		}
		if (!carry && (type == T_STR || type == T_JSON)) {
			// keep the text alive in the run so that a later carry step can re-use the structure
			mr.last_set_sv = sv;
			if (type == T_STR)
				jv.str_val = mr.last_set_sv.c_str();
			else
				jv.json_val = (char *)mr.last_set_sv.c_str();
		}
		desc = strf("SET%s %s %s name=%s replace=%d val=%s", carry ? "(same jwt_value_t as the previous SET, replace=1)" : "", hdr ? "hdr" : "claim", type == T_INT ? "INT" : type == T_STR ? "STR" : type == T_BOOL ? "BOOL" : "JSON",
			    name ? show(name, 12).c_str() : "(null)", replace, type == T_INT ? strf("%ld", jv.int_val).c_str() : show(sv, 24).c_str());
		// ---- model
		if (type != T_JSON) {
			if (noname)
				want = JWT_VALUE_ERR_INVALID;
			else if (json_object_get(m, name) && !replace)
				want = JWT_VALUE_ERR_EXIST;
			else
				json_object_set(m, name, newval);
		} else if (!newval) {
			want = JWT_VALUE_ERR_INVALID; // malformed, or not an object/array
		} else if (noname) {
			if (!json_is_object(newval)) {
				dontcare_rc = true; // statement is silent on whole-object set of an array
			} else {
				const char *k;
				json_t *v;
				json_object_foreach(newval, k, v)
				{
					if (replace || !json_object_get(m, k))
						json_object_set(m, k, v);
				}
			}
		} else if (json_object_get(m, name) && !replace)
			want = JWT_VALUE_ERR_EXIST;
		else
			json_object_set(m, name, newval);
		{
			Armed a(fail_at);
			rc = mr.t.set(hdr, &jv);
			fired = a.fired() > 0;
		}
		mr.last_set = jv;
		if (!carry)
			mr.last_set_step = s;
		mr.have_set = true;
		if (newval)
			json_decref(newval);
		if (rc != (int)jv.error && !fired)
			ctx.violation("C14", "value-error-field", "set", strf("%s returned %s but value.error is %s", desc.c_str(), verr_name(rc), verr_name(jv.error)));
	} else if (s.op == "GET") {
		int type = (int)eff->I("type");
		jwt_value_t jv;
		if (carry)
			jv = mr.last_get;
		else
			jv_get(&jv, type == T_INT ? JWT_VALUE_INT : type == T_STR ? JWT_VALUE_STR : type == T_BOOL ? JWT_VALUE_BOOL : JWT_VALUE_JSON, name);
		desc = strf("GET%s %s %s name=%s", carry ? "(same jwt_value_t as the previous GET)" : "", hdr ? "hdr" : "claim", type == T_INT ? "INT" : type == T_STR ? "STR" : type == T_BOOL ? "BOOL" : "JSON", name ? show(name, 12).c_str() : "(null)");
		json_t *mv = noname ? NULL : json_object_get(m, name);
		bool typeok = false;
		if (type == T_JSON) {
			if (noname)
				want = JWT_VALUE_ERR_NONE;
			else if (!mv)
				want = JWT_VALUE_ERR_NOEXIST;
			else if (!json_is_object(mv) && !json_is_array(mv))
				dontcare_rc = true; // JSON get of a named scalar member: statement silent
		} else if (noname)
			want = JWT_VALUE_ERR_INVALID;
		else if (!mv)
			want = JWT_VALUE_ERR_NOEXIST;
		else {
			typeok = (type == T_INT && json_is_integer(mv)) || (type == T_STR && json_is_string(mv)) || (type == T_BOOL && json_is_boolean(mv));
			if (!typeok)
				want = JWT_VALUE_ERR_TYPE;
		}
		{
			Armed a(fail_at);
			rc = mr.t.get(hdr, &jv);
			fired = a.fired() > 0;
		}
		if (rc != (int)jv.error && !fired)
			ctx.violation("C14", "value-error-field", "get", strf("%s returned %s but value.error is %s", desc.c_str(), verr_name(rc), verr_name(jv.error)));
		if (rc == JWT_VALUE_ERR_NONE && !fired && !dontcare_rc && want == JWT_VALUE_ERR_NONE) {
			bool same = true;
			std::string got;
			if (type == T_INT) {
				same = jv.int_val == (long)json_integer_value(mv);
				got = strf("%ld", jv.int_val);
			} else if (type == T_STR) {
				same = jv.str_val && !strcmp(jv.str_val, json_string_value(mv));
				got = jv.str_val ? jv.str_val : "(null)";
			} else if (type == T_BOOL) {
				same = (jv.bool_val != 0) == json_is_true(mv);
				got = strf("%d", jv.bool_val);
			} else {
				json_t *g = jv.json_val ? json_loads(jv.json_val, JSON_DECODE_ANY, NULL) : NULL;
				same = g && json_equal(g, noname ? m : mv);
				got = jv.json_val ? jv.json_val : "(null)";
				if (g)
					json_decref(g);
			}
			if (!same)
				ctx.violation("C15", "get-value", strf("%s:%s", mr.where, type == T_INT ? "INT" : type == T_STR ? "STR" : type == T_BOOL ? "BOOL" : "JSON"),
					      strf("%s returned %s but the stored value is %s", desc.c_str(), show(got, 120).c_str(), show(json_text(noname ? m : mv), 120).c_str()));
		}
		if (type == T_JSON && jv.json_val)
			sim_harness_free(jv.json_val);
		jv.json_val = NULL; // freed (an application would do the same before re-using the structure)
		mr.last_get = jv;
		if (!carry)
			mr.last_get_step = s;
		mr.have_get = true;
	} else if (s.op == "DEL") {
		desc = strf("DEL %s name=%s", hdr ? "hdr" : "claim", name ? show(name, 12).c_str() : "(null)");
		if (noname)
			json_object_clear(m);
		else
			json_object_del(m, name);
		Armed a(fail_at);
		rc = mr.t.del(hdr, name);
		fired = a.fired() > 0;
	} else
		return;
	ctx.logf("%s -> %s (model %s)%s", desc.c_str(), verr_name(rc), dontcare_rc ? "dont-care" : verr_name(want), fired ? " [alloc fault fired]" : "");
	ctx.sig(strf("C15|%s|%s|%s|%d|n%lld|r%lld|rc%d%s%s", mr.where, s.op.c_str(), hdr ? "h" : "c", (int)eff->I("type"), (long long)eff->I("name") % N_NAMES, (long long)s.I("replace"), rc, fired ? "|fault" : "", carry ? "|carry" : ""));
	mr.steps_done++;
	if (fired) {
		ctx.count("fault:alloc_fail_in_setget");
		// Under an allocation fault only "no crash, no corruption; a non-NONE return or the
		// fault-free state" is asserted: accept before / after / before-minus-name, then resync.
		int r2;
		json_t *snap = snapshot(mr.t, hdr, r2);
		bool ok = false;
		if (snap) {
			json_t *minus = json_deep_copy(before);
			if (!noname)
				json_object_del(minus, name);
			ok = json_equal(snap, m) || (rc != JWT_VALUE_ERR_NONE && (json_equal(snap, before) || json_equal(snap, minus)));
			if (!ok && rc != JWT_VALUE_ERR_NONE && s.op == "SET" && noname && json_is_object(snap)) {
				// a whole-object merge that reported the failure may have stopped half way: every member of the map is
				// then either what it was or what the fault-free merge makes it, and nothing that was there is gone
				ok = true;
				const char *k;
				json_t *v;
				json_object_foreach(snap, k, v)
				{
					json_t *b0 = json_object_get(before, k), *m0 = json_object_get(m, k);
					if (!((b0 && json_equal(b0, v)) || (m0 && json_equal(m0, v))))
						ok = false;
				}
				json_object_foreach(before, k, v)
				{
					if (!json_object_get(snap, k))
						ok = false;
				}
				if (ok)
					ctx.count("probe:whole_object_merge_stopped_half_way_under_alloc_fault");
			}
			json_decref(minus);
			if (!ok)
				ctx.violation("C15", "state-under-fault", strf("%s:%s", mr.where, s.op.c_str()),
					      strf("%s with allocation %lld failing returned %s and left %s (before %s, fault-free %s)", desc.c_str(), (long long)fail_at, verr_name(rc),
						   show(json_text(snap), 200).c_str(), show(json_text(before), 200).c_str(), show(json_text(m), 200).c_str()));
			json_object_clear(m);
			json_object_update(m, snap);
			json_decref(snap);
		}
	} else {
		if (!dontcare_rc && rc != want)
			ctx.violation("C15", "return-code", strf("%s:%s:want-%s:got-%s", mr.where, s.op.c_str(), verr_name(want), verr_name(rc)),
				      strf("%s on %s returned %s, the typed-map model says %s", desc.c_str(), mr.t.kind(), verr_name(rc), verr_name(want)));
		if (dontcare_rc) {
			// resync the model for don't-care cells
			int r2;
			json_t *snap = snapshot(mr.t, hdr, r2);
			if (snap) {
				json_object_clear(m);
				json_object_update(m, snap);
				json_decref(snap);
			}
			ctx.count("probe:dont_care_cell");
		}
		compare_state(mr, si, desc);
	}
	if (before)
		json_decref(before);
}

// callback plumbing
static MapRun *g_cb_run;
static const Plan *g_cb_plan;

static int map_cb(jwt_t *jwt, jwt_config_t *config)
{
	(void)config;
	MapRun &mr = *g_cb_run;
	mr.t.j = jwt;
	// the model starts from what the jwt_t holds when it is handed over
	for (int h = 0; h < 2; h++) {
		int rc;
		json_t *s = snapshot(mr.t, h == 1, rc);
		json_object_clear(mr.model[h]);
		if (s && json_is_object(s))
			json_object_update(mr.model[h], s);
		if (s)
			json_decref(s);
	}
	for (size_t si = 0; si < g_cb_plan->steps.size(); si++) {
		mr.ctx->cur_step = (int)si;
		run_op(mr, g_cb_plan->steps[si], si);
	}
	return 0;
}

static void typedmap_exec(Ctx &ctx)
{
	const Plan &plan = *ctx.plan;
	int target = (int)plan.C("target");
	ctx.nontrivial = plan.steps.size() >= 2;
	g_alloc.spare_jansson = true;
	MapRun mr;
	mr.ctx = &ctx;
	mr.model[0] = json_object();
	mr.model[1] = json_object();
	if (target == 0) {
		mr.where = "builder";
		{
			Armed a;
			mr.t.b = jwt_builder_new();
		}
		for (size_t si = 0; si < plan.steps.size(); si++) {
			ctx.cur_step = (int)si;
			run_op(mr, plan.steps[si], si);
		}
		// NULL builder / NULL value are refused
		jwt_value_t jv;
		jv_set_int(&jv, "a", 1);
		if (jwt_builder_claim_set(NULL, &jv) != JWT_VALUE_ERR_INVALID || jv.error != JWT_VALUE_ERR_INVALID)
			ctx.violation("C15", "null-object", "builder-null", "jwt_builder_claim_set(NULL, value) did not return INVALID with value.error set");
		Armed a;
		jwt_builder_free(mr.t.b);
	} else if (target == 1) {
		mr.where = "generate-callback";
		jwt_builder_t *b;
		{
			Armed a;
			b = jwt_builder_new();
		}
		jwt_builder_enable_iat(b, 0);
		// the builder already holds members of every type under the names the history uses: what the
		// callback does to its per-token copy must never show up in the builder
		{
			jwt_value_t jv;
			Armed a;
			for (int h = 0; h < 2; h++) {
				jv_set_str(&jv, "a", "builder-a", 1);
				h ? jwt_builder_header_set(b, &jv) : jwt_builder_claim_set(b, &jv);
				jv_set_int(&jv, "b", 4711, 1);
				h ? jwt_builder_header_set(b, &jv) : jwt_builder_claim_set(b, &jv);
				jv_set_bool(&jv, "c", 1, 1);
				h ? jwt_builder_header_set(b, &jv) : jwt_builder_claim_set(b, &jv);
				jv_set_json(&jv, "ab", "{\"in\":{\"deep\":[1,2,3]}}", 1);
				h ? jwt_builder_header_set(b, &jv) : jwt_builder_claim_set(b, &jv);
			}
		}
		std::string pre[2];
		for (int h = 0; h < 2; h++) {
			jwt_value_t jv;
			jv_get(&jv, JWT_VALUE_JSON, NULL);
			int rc = h ? jwt_builder_header_get(b, &jv) : jwt_builder_claim_get(b, &jv);
			pre[h] = rc == JWT_VALUE_ERR_NONE && jv.json_val ? jv.json_val : "?";
			if (jv.json_val)
				sim_harness_free(jv.json_val);
		}
		jwt_builder_setcb(b, map_cb, NULL);
		g_cb_run = &mr;
		g_cb_plan = &plan;
		GenerateOut go = lib_generate(ctx, b, false);
		ctx.logf("generate with callback -> %s", go.ok ? "token" : ("NULL " + go.msg).c_str());
		// the builder itself is unchanged by what the callback did to the per-token object
		jwt_value_t jv;
		for (int h = 0; h < 2; h++) {
			jv_get(&jv, JWT_VALUE_JSON, NULL);
			int rc = h ? jwt_builder_header_get(b, &jv) : jwt_builder_claim_get(b, &jv);
			if (rc != JWT_VALUE_ERR_NONE || !jv.json_val || pre[h] != jv.json_val) {
				// a set/replace/delete on the token object changed another map (the builder's): not a map
				ctx.violation("C15", "callback-edit-reaches-builder", h ? "headers" : "claims",
					      strf("after generate the builder's %s are %s, before it they were %s (operations on the callback's token object must not reach the builder)",
						   h ? "headers" : "claims", jv.json_val ? jv.json_val : "(null)", pre[h].c_str()));
				ctx.violation("C10", "callback-leaks-into-builder", h ? "headers" : "claims", "builder changed by a generate callback");
			}
			if (jv.json_val)
				sim_harness_free(jv.json_val);
		}
		Armed a;
		jwt_builder_free(b);
	} else {
		mr.where = "verify-callback";
		jwt_checker_t *c;
		{
			Armed a;
			c = jwt_checker_new();
		}
		jwt_checker_time_leeway(c, JWT_CLAIM_EXP, -1);
		jwt_checker_time_leeway(c, JWT_CLAIM_NBF, -1);
		jwt_checker_setcb(c, map_cb, NULL);
		g_cb_run = &mr;
		g_cb_plan = &plan;
		std::string tok;
		ref_make_token("{\"alg\":\"none\",\"a\":\"hv\",\"typ\":\"JWT\"}", "{\"a\":1,\"b\":\"two\",\"c\":true,\"ab\":{\"n\":[1,2]}}", NULL, NULL, tok);
		VerifyOut vo = lib_verify(ctx, c, tok.c_str(), false);
		ctx.logf("verify with callback -> %d '%s'", vo.ret, vo.msg.c_str());
		Armed a;
		jwt_checker_free(c);
	}
	if (mr.steps_done == 0 && !plan.steps.empty())
		ctx.logf("no step executed (callback not invoked?)");
	if (target != 0 && mr.steps_done == 0 && !plan.steps.empty())
		ctx.violation("C15", "callback-not-run", mr.where, "the callback that carries the operation history was never invoked");
	json_decref(mr.model[0]);
	json_decref(mr.model[1]);
	g_cb_run = NULL;
	monitor_no_leak(ctx, "C06", "typedmap-run");
}

extern const Profile PROFILE_TYPEDMAP = {"typedmap", typedmap_gen, typedmap_exec};
