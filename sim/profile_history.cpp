// Profiles "builder" (C10), "reuse" (C13) and "callback" (C19): long histories on one object
// with callbacks running at arbitrary simulated instants, checked against a builder model, a
// freshly configured twin, and a callback-free twin respectively.
#include "lib.hpp"
#include "world.hpp"

// ---------------------------------------------------------------- shared small pieces
static const char *HNAMES[] = {"a", "b", "typ", "alg", "kid", "cty", "x"};
static const char *CNAMES[] = {"a", "b", "iat", "exp", "nbf", "sub", "iss", "aud", "x"};

static json_t *edit_value(int type, int sel)
{
	switch (type % 4) {
	case 0: {
		static const long v[] = {0, 1, -1, 1700000000L, 4102444800L, 2147483648L, 42};
		return json_integer(v[sel % (int)ARRAY_LEN(v)]);
	}
	case 1: {
		static const char *v[] = {"", "JWT", "none", "HS256", "someone", "issuer-x", "\xc3\xbc"};
		return json_string(v[sel % (int)ARRAY_LEN(v)]);
	}
	case 2:
		return json_boolean(sel % 2);
	default: {
		static const char *v[] = {"{}", "[]", "{\"n\":[1,2]}", "[\"x\"]", "{\"r\":0.30000000000000004,\"pi\":3.141592653589793}", "[1700000000.123456,1.0000000000000002,1.7976931348623157e308]"};
		return json_loads(v[sel % (int)ARRAY_LEN(v)], 0, NULL);
	}
	}
}

// one edit of a header/claim map: op {hdr, act: 0 set, 1 del, 2 del-all, name, type, val, replace}
static Step gen_edit(Rng &r, int focus_name = -1)
{
	Step e("EDIT");
	e.set("hdr", r.chance(1, 3) ? 1 : 0);
	e.set("act", (int64_t)r.pick(std::vector<int>{0, 0, 0, 0, 1, 1, 1, 2, 3})); // 3: a request the typed map refuses (INVALID), no change
	e.set("name", focus_name >= 0 && r.chance(2, 3) ? (int64_t)focus_name : (int64_t)r.below(9));
	e.set("type", r.range(0, 3));
	e.set("val", (int64_t)r.below(16));
	e.set("replace", r.chance(2, 3) ? 1 : 0);
	return e;
}

static const char *edit_name(const Step &e)
{
	bool hdr = e.I("hdr") != 0;
	return hdr ? HNAMES[(uint64_t)e.I("name") % ARRAY_LEN(HNAMES)] : CNAMES[(uint64_t)e.I("name") % ARRAY_LEN(CNAMES)];
}

// apply to a model map (typed-map rules of C15)
static void model_edit(json_t *hdr, json_t *claims, const Step &e)
{
	json_t *m = e.I("hdr") ? hdr : claims;
	const char *name = edit_name(e);
	switch (e.I("act")) {
	case 0: {
		json_t *v = edit_value((int)e.I("type"), (int)e.I("val"));
		if (!json_object_get(m, name) || e.I("replace"))
			json_object_set(m, name, v);
		json_decref(v);
		break;
	}
	case 1:
		json_object_del(m, name);
		break;
	case 3:
		break; // refused request
	default:
		json_object_clear(m);
	}
}

// a request the typed map refuses with INVALID and no change: malformed JSON text (named or whole-object),
// a string value that is NULL, a scalar with an empty or absent name
static void invalid_request(const Step &e, const char *name, jwt_value_t *jv)
{
	static const char *bad[] = {"{", "{\"a\":}", "nope", "", "{\"a\":1,}", "[1,"};
	switch ((uint64_t)e.I("val") % 5) {
	case 0:
		jv_set_json(jv, name, bad[(uint64_t)e.I("type") % ARRAY_LEN(bad)], (int)e.I("replace"));
		break;
	case 1:
		jv_set_json(jv, NULL, bad[(uint64_t)e.I("type") % ARRAY_LEN(bad)], 1);
		break;
	case 2:
		jv_set_str(jv, name, NULL, (int)e.I("replace"));
		break;
	case 3:
		jv_set_int(jv, "", 7, (int)e.I("replace"));
		break;
	default:
		jv_set_bool(jv, NULL, 1, (int)e.I("replace"));
	}
}

// apply through the jwt_t API inside a callback
static void lib_edit_jwt(jwt_t *jwt, const Step &e)
{
	bool hdr = e.I("hdr") != 0;
	const char *name = edit_name(e);
	switch (e.I("act")) {
	case 0: {
		json_t *v = edit_value((int)e.I("type"), (int)e.I("val"));
		jwt_value_t jv;
		std::string txt;
		if (json_is_integer(v))
			jv_set_int(&jv, name, (long)json_integer_value(v), (int)e.I("replace"));
		else if (json_is_string(v)) {
			txt = json_string_value(v);
			jv_set_str(&jv, name, txt.c_str(), (int)e.I("replace"));
		} else if (json_is_boolean(v))
			jv_set_bool(&jv, name, json_is_true(v), (int)e.I("replace"));
		else {
			txt = json_text(v);
			jv_set_json(&jv, name, txt.c_str(), (int)e.I("replace"));
		}
		if (hdr)
			jwt_header_set(jwt, &jv);
		else
			jwt_claim_set(jwt, &jv);
		json_decref(v);
		break;
	}
	case 1:
		if (hdr)
			jwt_header_del(jwt, name);
		else
			jwt_claim_del(jwt, name);
		break;
	case 3: {
		jwt_value_t jv;
		invalid_request(e, name, &jv);
		if (hdr)
			jwt_header_set(jwt, &jv);
		else
			jwt_claim_set(jwt, &jv);
		break;
	}
	default:
		if (hdr)
			jwt_header_del(jwt, NULL);
		else
			jwt_claim_del(jwt, NULL);
	}
}

static void lib_edit_builder(jwt_builder_t *b, const Step &e)
{
	bool hdr = e.I("hdr") != 0;
	const char *name = edit_name(e);
	Armed a;
	switch (e.I("act")) {
	case 0: {
		json_t *v = edit_value((int)e.I("type"), (int)e.I("val"));
		jwt_value_t jv;
		std::string txt;
		if (json_is_integer(v))
			jv_set_int(&jv, name, (long)json_integer_value(v), (int)e.I("replace"));
		else if (json_is_string(v)) {
			txt = json_string_value(v);
			jv_set_str(&jv, name, txt.c_str(), (int)e.I("replace"));
		} else if (json_is_boolean(v))
			jv_set_bool(&jv, name, json_is_true(v), (int)e.I("replace"));
		else {
			txt = json_text(v);
			jv_set_json(&jv, name, txt.c_str(), (int)e.I("replace"));
		}
		if (hdr)
			jwt_builder_header_set(b, &jv);
		else
			jwt_builder_claim_set(b, &jv);
		json_decref(v);
		break;
	}
	case 1:
		if (hdr)
			jwt_builder_header_del(b, name);
		else
			jwt_builder_claim_del(b, name);
		break;
	case 3: {
		jwt_value_t jv;
		invalid_request(e, name, &jv);
		if (hdr)
			jwt_builder_header_set(b, &jv);
		else
			jwt_builder_claim_set(b, &jv);
		break;
	}
	default:
		if (hdr)
			jwt_builder_header_del(b, NULL);
		else
			jwt_builder_claim_del(b, NULL);
	}
}

struct ProgCtx {
	const std::vector<Step> *prog = nullptr;
	int ret = 0;
	const jwk_item_t *setkey = nullptr; // inject a key
	bool set_key = false;
	int set_alg = -1;
	int calls = 0;
	int fail_on_call = -1; // return error on the n-th call (0-based), -1 never
};

static int prog_cb(jwt_t *jwt, jwt_config_t *config)
{
	ProgCtx *pc = (ProgCtx *)config->ctx;
	if (!pc)
		return 0;
	int call = pc->calls++;
	if (pc->prog)
		for (auto &e : *pc->prog)
			lib_edit_jwt(jwt, e);
	if (pc->set_key)
		config->key = pc->setkey;
	if (pc->set_alg >= 0)
		config->alg = (jwt_alg_t)pc->set_alg;
	if (pc->fail_on_call >= 0 && call == pc->fail_on_call)
		return 1;
	return pc->ret;
}

static std::string builder_snapshot(jwt_builder_t *b, bool hdr)
{
	jwt_value_t jv;
	jv_get(&jv, JWT_VALUE_JSON, NULL);
	int rc = hdr ? jwt_builder_header_get(b, &jv) : jwt_builder_claim_get(b, &jv);
	std::string r = rc == JWT_VALUE_ERR_NONE && jv.json_val ? jv.json_val : strf("(rc=%d)", rc);
	if (jv.json_val)
		sim_harness_free(jv.json_val);
	return r;
}

struct Keys {
	KeyRef oct, ec, weak, oct2, rsa;
	LoadedKey oct_l, ec_priv, ec_pub, weak_l, oct2_l, rsa_priv, rsa_pub;
	void init(Ctx &ctx, uint64_t root)
	{
		Rng r(mix64(root, 0x6b65));
		oct = key_gen_oct(r, 32);
		weak = key_gen_oct(r, 8);
		oct2 = key_gen_oct(r, 32);
		rsa = key_rsa_pool(2048, 1);
		sim_entropy_point(mix64(root, 0xec));
		ec = key_gen_ec("P-256");
		JwkOpts o;
		lib_load_key(ctx, jwk_export(*oct, o), oct_l);
		lib_load_key(ctx, jwk_export(*weak, o), weak_l);
		lib_load_key(ctx, jwk_export(*ec, o), ec_priv);
		lib_load_key(ctx, jwk_export(*oct2, o), oct2_l);
		lib_load_key(ctx, jwk_export(*rsa, o), rsa_priv);
		o.priv = false;
		lib_load_key(ctx, jwk_export(*ec, o), ec_pub);
		lib_load_key(ctx, jwk_export(*rsa, o), rsa_pub);
	}
	void fini()
	{
		lib_free_key(oct_l);
		lib_free_key(weak_l);
		lib_free_key(ec_priv);
		lib_free_key(ec_pub);
		lib_free_key(oct2_l);
		lib_free_key(rsa_priv);
		lib_free_key(rsa_pub);
	}
};

// ================================================================ builder (C10)
static void builder_gen(Rng &r, Plan &p, Tier tier, uint64_t index)
{
	// the simulated clock advances by one second on every n-th read: a generate that reads the clock
	// more than once shows up as time claims that do not belong to one instant
	p.cfg["tick_every"] = Val((int64_t)(r.chance(1, 3) ? r.range(1, 3) : 0));
	p.cfg["reuse"] = Val((int64_t)(r.chance(1, 4) ? 1 : 0)); // allocator address reuse (see SimAlloc::reuse)
	(void)index;
	int n = (int)r.range(5, tier == QUICK ? 30 : 45);
	for (int i = 0; i < n; i++) {
		Step s;
		switch (r.below(12)) {
		case 0:
		case 1:
		case 2:
			s = gen_edit(r);
			s.op = "BEDIT";
			break;
		case 3:
			s = Step("IAT");
			s.set("on", r.chance(1, 2) ? 1 : 0);
			break;
		case 4:
			s = Step("OFFSET");
			s.set("claim", r.chance(5, 6) ? r.range(0, 1) : 2);
			s.set("secs", (int64_t)r.pick(std::vector<int64_t>{0, -1, -100, 1, 60, 3600, 1LL << 31, 1LL << 40}));
			break;
		case 5:
			s = Step("SETKEY");
			s.set("key", r.range(0, 4)); // 0 none, 1 oct/HS256, 2 EC priv/ES256, 3 EC public-only, 4 oct/HS512 (too short -> generate fails)
			break;
		case 6: {
			s = Step("SETCB");
			int k = (int)r.below(4);
			for (int j = 0; j < k; j++)
				s.sub.push_back(gen_edit(r));
			// callback injects a key for that token only: 1 public-only (must fail), 2 a valid oct key with HS256
			s.set("pubkey", r.chance(1, 8) ? 1 : (r.chance(1, 4) ? 2 : 0));
			s.set("off", r.chance(1, 5) ? 1 : 0);
			break;
		}
		case 7:
			s = Step("ADVANCE");
			s.set("dt", r.chance(1, 2) ? r.range(0, 100) : r.range(-(1LL << 31), 1LL << 33));
			// or the clock is set to an instant with a meaning of its own for some code (-1 is also time(2)'s error
			// return, 0 the epoch, the 32-bit edges, the year 10000)
			if (r.chance(1, 5))
				s.set("jump", (int64_t)r.pick(std::vector<int64_t>{-1, -1, 0, 1, -2, 2147483647LL, 2147483648LL, 4294967295LL, 4294967296LL, 253402300800LL, -2147483648LL}));
			break;
		default:
			s = Step("GENERATE");
		}
		s.uid = (uint64_t)i + 1;
		p.steps.push_back(s);
	}
}

static void builder_exec(Ctx &ctx)
{
	const Plan &plan = *ctx.plan;
	Keys K;
	K.init(ctx, plan.rng);
	jwt_builder_t *b;
	{
		Armed a;
		b = jwt_builder_new();
	}
	// model
	json_t *mh = json_object(), *mc = json_object();
	bool iat = true;
	int64_t nbf_off = 0, exp_off = 0;
	int key = 0; // as SETKEY selector; 0 none
	const std::vector<Step> *prog = NULL;
	int cb_pub = 0;
	ProgCtx pc;
	int gens = 0;
	ctx.nontrivial = plan.steps.size() >= 3;

	for (size_t si = 0; si < plan.steps.size(); si++) {
		const Step &s = plan.steps[si];
		ctx.cur_step = (int)si;
		if (s.op == "BEDIT") {
			lib_edit_builder(b, s);
			model_edit(mh, mc, s);
			ctx.logf("BEDIT %s", step_brief(s).c_str());
		} else if (s.op == "IAT") {
			int prev = jwt_builder_enable_iat(b, (int)s.I("on"));
			if (prev != (iat ? 1 : 0))
				ctx.violation("C10", "enable-iat-return", "prev", strf("jwt_builder_enable_iat returned %d, previous state was %d", prev, iat));
			iat = s.I("on") != 0;
			ctx.logf("IAT %d", iat);
		} else if (s.op == "OFFSET") {
			int64_t cl = s.I("claim"), secs = s.I("secs");
			jwt_claims_t t = cl == 0 ? JWT_CLAIM_EXP : cl == 1 ? JWT_CLAIM_NBF : JWT_CLAIM_IAT;
			int r = jwt_builder_time_offset(b, t, (time_t)secs);
			if ((r != 0) != (cl > 1))
				ctx.violation("C10", "time-offset-return", strf("claim%lld", (long long)cl), strf("jwt_builder_time_offset(claim %lld, %lld) returned %d", (long long)cl, (long long)secs, r));
			if (cl == 0)
				exp_off = secs > 0 ? secs : 0;
			else if (cl == 1)
				nbf_off = secs > 0 ? secs : 0;
			ctx.logf("OFFSET claim=%lld secs=%lld -> %d", (long long)cl, (long long)secs, r);
		} else if (s.op == "SETKEY") {
			int k = (int)s.I("key");
			const jwk_item_t *item = k == 1 ? K.oct_l.item : k == 2 ? K.ec_priv.item : k == 3 ? K.ec_pub.item : k == 4 ? K.weak_l.item : NULL;
			jwt_alg_t alg = k == 1 ? JWT_ALG_HS256 : k == 2 || k == 3 ? JWT_ALG_ES256 : k == 4 ? JWT_ALG_HS512 : JWT_ALG_NONE;
			int r;
			{
				Armed a;
				r = jwt_builder_setkey(b, alg, item);
			}
			ctx.logf("SETKEY %d -> %d", k, r);
			if (k == 3) {
				// signing with a public-only key is refused, the previous key stays in force
				if (r == 0)
					ctx.violation("C10", "public-key-accepted", "setkey", "jwt_builder_setkey accepted a public-only EC key");
				jwt_builder_error_clear(b);
			} else if (r != 0) {
				ctx.violation("C10", "setkey-refused", strf("key%d", k), strf("jwt_builder_setkey refused an admissible key/alg pair: %s", jwt_builder_error_msg(b)));
				jwt_builder_error_clear(b);
			} else
				key = k;
		} else if (s.op == "SETCB") {
			if (s.I("off")) {
				jwt_builder_setcb(b, NULL, NULL);
				prog = NULL;
				cb_pub = 0;
			} else {
				prog = &s.sub;
				cb_pub = (int)s.I("pubkey");
				pc = ProgCtx();
				pc.prog = prog;
				if (cb_pub == 1) {
					pc.set_key = true;
					pc.setkey = K.ec_pub.item;
					pc.set_alg = JWT_ALG_ES256;
				} else if (cb_pub == 2) {
					pc.set_key = true;
					pc.setkey = K.oct_l.item;
					pc.set_alg = JWT_ALG_HS256;
				}
				jwt_builder_setcb(b, prog_cb, &pc);
			}
			ctx.logf("SETCB prog=%zu pub=%d", prog ? prog->size() : (size_t)0, cb_pub);
		} else if (s.op == "ADVANCE") {
			if (s.has("jump"))
				g_clock.jump(s.I("jump"));
			else
				g_clock.advance(s.I("dt"));
			ctx.logf("ADVANCE -> %lld", (long long)g_clock.now());
		} else if (s.op == "GENERATE") {
			std::string h0 = builder_snapshot(b, true), c0 = builder_snapshot(b, false);
			int64_t now = g_clock.now();
			sim_entropy_point(mix64(plan.rng, s.uid));
			g_clock.tick_every = plan.C("tick_every");
			g_clock.reads = 0;
			GenerateOut go = lib_generate(ctx, b);
			g_clock.tick_every = 0;
			int64_t now_after = g_clock.now();
			if (now_after != now)
				ctx.count("fault:clock_ticked_during_generate");
			std::string h1 = builder_snapshot(b, true), c1 = builder_snapshot(b, false);
			gens++;
			// the builder itself is unchanged by generating
			if (h0 != h1 || c0 != c1)
				ctx.violation("C10", "builder-changed-by-generate", h0 != h1 ? "headers" : "claims",
					      strf("builder %s before generate: %s after: %s", h0 != h1 ? "headers" : "claims", show(h0 != h1 ? h0 : c0, 200).c_str(), show(h0 != h1 ? h1 : c1, 200).c_str()));
			{
				json_t *sh = json_loads(h1.c_str(), 0, NULL), *sc = json_loads(c1.c_str(), 0, NULL);
				if (!sh || !json_equal(sh, mh) || !sc || !json_equal(sc, mc))
					ctx.violation("C10", "builder-state", "snapshot", strf("builder holds headers %s claims %s, the model %s / %s", show(h1, 150).c_str(), show(c1, 150).c_str(),
										 show(json_text(mh), 150).c_str(), show(json_text(mc), 150).c_str()));
				if (sh)
					json_decref(sh);
				if (sc)
					json_decref(sc);
			}
			// expected token content
			json_t *eh = json_deep_copy(mh), *ec = json_deep_copy(mc);
			if (iat)
				json_object_set_new(ec, "iat", json_integer(now));
			if (nbf_off > 0)
				json_object_set_new(ec, "nbf", json_integer(now + nbf_off));
			if (exp_off > 0)
				json_object_set_new(ec, "exp", json_integer(now + exp_off));
			if (prog)
				for (auto &e : *prog)
					model_edit(eh, ec, e);
			int ekey = cb_pub == 1 && prog ? 3 : cb_pub == 2 && prog ? 1 : key;
			bool must_fail = ekey == 3 || ekey == 4;
			const AlgInfo *ea = alg_by_id(ekey == 1 ? JWT_ALG_HS256 : ekey == 2 ? JWT_ALG_ES256 : JWT_ALG_NONE);
			if (ea->id != JWT_ALG_NONE && !json_object_get(eh, "typ"))
				json_object_set_new(eh, "typ", json_string("JWT"));
			json_object_set_new(eh, "alg", json_string(ea->name));
			ctx.logf("GENERATE now=%lld key=%d -> %s msg='%s'", (long long)now, ekey, go.ok ? show(go.token, 50).c_str() : "NULL", go.msg.c_str());
			{
				// configuration cell of this generate: key, time claims, which reserved names the builder and
				// the callback program touch, sizes of the maps
				std::string pd;
				if (prog)
					for (auto &e : *prog)
						pd += strf("%s%s%lld;", e.I("hdr") ? "h." : "c.", edit_name(e), (long long)e.I("act"));
				std::string names;
				for (const char *n : {"iat", "exp", "nbf"})
					names += json_object_get(mc, n) ? "1" : "0";
				for (const char *n : {"typ", "alg"})
					names += json_object_get(mh, n) ? "1" : "0";
				ctx.sig(strf("C10|key%d|iat%d|nbf%d|exp%d|%s|h%zu|c%zu|prog[%s]|ok%d", ekey, iat, nbf_off > 0, exp_off > 0, names.c_str(), json_object_size(mh), json_object_size(mc), pd.c_str(), go.ok));
			}
			if (must_fail) {
				if (go.ok)
					ctx.violation("C10", ekey == 3 ? "signed-with-public-key" : "signed-with-short-key", strf("key%d", ekey),
						      strf("generate produced %s although the key in force is %s", show(go.token, 120).c_str(), ekey == 3 ? "public-only" : "too short for HS512"));
				jwt_builder_error_clear(b);
			} else if (!go.ok) {
				ctx.violation("C10", "generate-failed", strf("key%d", ekey), strf("generate failed for a usable configuration: %s", go.msg.c_str()));
				jwt_builder_error_clear(b);
			} else {
				TokenParts tp;
				token_split(go.token, tp);
				bool shape = tp.has2 && tp.dots == 2;
				std::string dec[3];
				for (int i = 0; i < 3 && shape; i++) {
					if (i == 2 && tp.seg[2].empty())
						continue;
					if (!b64url_decode_strict(tp.seg[i], dec[i]) || b64url_encode(dec[i]) != tp.seg[i])
						shape = false;
				}
				if (!shape)
					ctx.violation("C10", "token-shape", "segments", strf("token is not three unpadded base64url segments: %s", show(go.token, 300).c_str()));
				else {
					json_t *gh = json_loadb(dec[0].data(), dec[0].size(), 0, NULL), *gc = json_loadb(dec[1].data(), dec[1].size(), 0, NULL);
					if (!gh || !json_is_object(gh) || !json_equal(gh, eh))
						ctx.violation("C10", "header-content", ea->name, strf("emitted header %s, the builder model says %s", show(dec[0], 250).c_str(), show(json_text(eh), 250).c_str()));
					bool pay_ok = gc && json_is_object(gc) && json_equal(gc, ec);
					// the clock moved while generate ran: iat/nbf/exp must still all belong to ONE instant
					for (int64_t t = now + 1; !pay_ok && gc && json_is_object(gc) && t <= now_after; t++) {
						json_t *alt = json_deep_copy(mc);
						if (iat)
							json_object_set_new(alt, "iat", json_integer(t));
						if (nbf_off > 0)
							json_object_set_new(alt, "nbf", json_integer(t + nbf_off));
						if (exp_off > 0)
							json_object_set_new(alt, "exp", json_integer(t + exp_off));
						json_t *dummyh = json_object();
						if (prog)
							for (auto &e : *prog)
								model_edit(dummyh, alt, e);
						json_decref(dummyh);
						pay_ok = json_equal(gc, alt);
						json_decref(alt);
					}
					if (!pay_ok)
						ctx.violation("C10", "payload-content", strf("iat%d:nbf%d:exp%d:prog%d", iat, nbf_off > 0, exp_off > 0, prog ? 1 : 0),
							      strf("emitted payload %s at now=%lld, the builder model says %s", show(dec[1], 250).c_str(), (long long)now, show(json_text(ec), 250).c_str()));
					if (gh)
						json_decref(gh);
					if (gc)
						json_decref(gc);
					if (ea->id == JWT_ALG_NONE) {
						if (!tp.seg[2].empty())
							ctx.violation("C10", "signature-on-none", "none", "alg none token carries a third segment");
					} else {
						const KeyTruth &kt = ekey == 1 ? *K.oct : *K.ec;
						size_t want_len = ekey == 1 ? 32 : 64;
						if (dec[2].size() != want_len || !ref_verify_raw(kt, *ea, tp.signing_input, dec[2]))
							ctx.violation("C10", "signature", ea->name, strf("third segment (%zu bytes) is not the algorithm's raw signature over the first two segments", dec[2].size()));
					}
				}
			}
			json_decref(eh);
			json_decref(ec);
		}
	}
	(void)gens;
	{
		Armed a;
		jwt_builder_free(b);
	}
	json_decref(mh);
	json_decref(mc);
	K.fini();
	monitor_no_leak(ctx, "C06", "builder-run");
}

extern const Profile PROFILE_BUILDER = {"builder", builder_gen, builder_exec};

// ================================================================ reuse (C13)
// token kinds for the checker history
enum { TK_VALID = 0, TK_NODOTS, TK_BADHDR, TK_BADALG, TK_WRONGALG, TK_EXPIRED, TK_BADSIG, TK_NULL, TK_EMPTY, TK_WRONGISS, TK_NONE_UNSIGNED, TK_VALID2, TK_EXPSOON, TK_N };

static void reuse_gen(Rng &r, Plan &p, Tier tier, uint64_t index)
{
	p.cfg["reuse"] = Val((int64_t)(r.chance(1, 4) ? 1 : 0)); // allocator address reuse (see SimAlloc::reuse)
	(void)index;
	// 0 checker HS256, 1 checker no key, 2 builder, 3 checker RSA (PS256 or RS256, OpenSSL), 4 checker whose callback picks the key
	// from a ring of ten (by the token's kid; for a token without kid the first key of the ring)
	// 5 builder with an RSA key (RS256, OpenSSL) whose callback now and then signs one token with an EC key instead
	p.cfg["mode"] = Val((int64_t)r.below(6));
	p.cfg["rsalg"] = Val((int64_t)r.below(2));
	p.cfg["iss"] = Val((int64_t)r.below(2));
	p.cfg["faults"] = Val((int64_t)(r.chance(1, 4) ? 1 : 0));
	int n = (int)r.range(6, tier == QUICK ? 35 : 50);
	for (int i = 0; i < n; i++) {
		Step s;
		switch (r.below(10)) {
		case 0:
			s = Step("CLEAR");
			break;
		case 1:
			s = Step("ADVANCE");
			// mostly forward; a quarter of the moves step the clock back by a second or two, or by a minute
			s.set("dt", r.chance(1, 4) ? -(int64_t)r.pick(std::vector<int>{1, 1, 2, 2, 3, 60}) : r.range(0, 50));
			break;
		case 2:
			s = Step("CONFIG");
			s.set("what", r.range(0, 5));
			s.set("val", (int64_t)r.below(8));
			break;
		case 3:
			s = Step("CBMODE");
			s.set("mode", r.range(0, 4)); // 0 none, 1 noop cb, 2 cb failing now, 3 cb selecting a bad key, 4 cb overriding the key with another valid one
			break;
		default:
			s = Step("CALL");
			s.set("kind", (int64_t)r.below(TK_N));
			if (p.C("faults") && r.chance(1, 4))
				s.set("failalloc", r.range(1, 40));
			if (r.chance(1, 8)) {
				s.set("kind", (int64_t)TK_EXPSOON);
				s.set("soon", r.range(1, 3)); // exp = now + 1..3 s
			}
			if (p.C("mode") == 5 && s.has("failalloc"))
				s.set("failalloc", r.range(20, 45)); // the signing end of generate
			if (p.C("mode") == 4) {
				s.set("rk", r.chance(1, 3) ? r.range(8, 9) : r.range(0, 9)); // which key of the ring signs
				s.set("nokid", r.chance(1, 3) ? 1 : 0);
				if (r.chance(1, 2))
					s.set("kind", (int64_t)TK_VALID);
			}
		}
		s.uid = (uint64_t)i + 1;
		p.steps.push_back(s);
	}
}

struct ReuseCfg {
	int mode;
	bool want_iss = false;
	std::string iss;
	int64_t exp_leeway = 0;
	bool exp_on = true;
	int cbmode = 0;
	// builder side
	bool iat = true;
	int64_t exp_off = 0;
	std::string claim_a;
};

// mode 4: the application's callback looks the key up in a ring it owns
struct RingCtx {
	jwk_set_t *ring = nullptr;
	int calls = 0;
};
static int ring_cb(jwt_t *jwt, jwt_config_t *config)
{
	RingCtx *rc = (RingCtx *)config->ctx;
	if (!rc || !rc->ring)
		return 1;
	rc->calls++;
	jwt_value_t jv;
	jv_get(&jv, JWT_VALUE_STR, "kid");
	const jwk_item_t *it;
	if (jwt_header_get(jwt, &jv) == JWT_VALUE_ERR_NONE && jv.str_val)
		it = jwks_find_bykid(rc->ring, jv.str_val);
	else
		it = jwks_item_get(rc->ring, 0); // tokens issued before kids were introduced: the first key
	if (!it)
		return 1;
	config->key = it;
	config->alg = JWT_ALG_HS256;
	return 0;
}

static void reuse_exec(Ctx &ctx)
{
	const Plan &plan = *ctx.plan;
	int mode = (int)plan.C("mode");
	Keys K;
	K.init(ctx, plan.rng);
	ReuseCfg cfg;
	cfg.mode = mode;
	if (plan.C("iss")) {
		cfg.want_iss = true;
		cfg.iss = "issuer-x";
	}
	ProgCtx pc_long, pc_twin;
	ctx.nontrivial = plan.steps.size() >= 4;
	uint64_t hist = 0; // what happened to the long-lived object so far (last 3 events)
	const AlgInfo *hs256 = alg_by_name("HS256");
	jwt_alg_t rsalg = plan.C("rsalg") ? JWT_ALG_PS256 : JWT_ALG_RS256;
	const AlgInfo *rsinfo = alg_by_id(rsalg);
	set_provider(0); // OpenSSL: its thread-local error queue is the hidden state to look for in RSA mode
	std::vector<KeyRef> ring_keys;
	std::string ring_doc;
	RingCtx ring_long, ring_twin;
	if (mode == 4) {
		Rng rr(mix64(plan.rng, 0x4149));
		ring_doc = "{\"keys\":[";
		for (int i = 0; i < 10; i++) {
			KeyRef k = key_gen_oct(rr, 32);
			JwkOpts o;
			o.has_alg = true;
			o.alg = "HS256";
			o.has_kid = true;
			o.kid = strf("r%d", i);
			ring_doc += (i ? "," : "") + jwk_export(*k, o);
			ring_keys.push_back(k);
		}
		ring_doc += "]}";
		Armed a;
		ring_long.ring = jwks_create(ring_doc.c_str());
	}

	auto make_checker = [&](ProgCtx *pc, RingCtx *rc = nullptr) -> jwt_checker_t * {
		Armed a;
		jwt_checker_t *c = jwt_checker_new();
		if (mode == 4 && rc)
			jwt_checker_setcb(c, ring_cb, rc);
		if (mode == 0)
			jwt_checker_setkey(c, JWT_ALG_HS256, K.oct_l.item);
		if (mode == 3)
			jwt_checker_setkey(c, rsalg, K.rsa_pub.item);
		if (cfg.want_iss)
			jwt_checker_claim_set(c, JWT_CLAIM_ISS, cfg.iss.c_str());
		jwt_checker_time_leeway(c, JWT_CLAIM_EXP, cfg.exp_on ? (time_t)cfg.exp_leeway : (time_t)-1);
		if (cfg.cbmode) {
			*pc = ProgCtx();
			if (cfg.cbmode == 2)
				pc->ret = 1;
			if (cfg.cbmode == 3) {
				pc->set_key = true;
				pc->setkey = K.weak_l.item;
				pc->set_alg = JWT_ALG_HS256;
			}
			if (cfg.cbmode == 4 && mode == 0) {
				// another valid key for as long as this callback mode lasts
				pc->set_key = true;
				pc->setkey = K.oct2_l.item;
				pc->set_alg = JWT_ALG_HS256;
			}
			jwt_checker_setcb(c, prog_cb, pc);
		}
		return c;
	};
	auto make_builder = [&](ProgCtx *pc) -> jwt_builder_t * {
		Armed a;
		jwt_builder_t *b = jwt_builder_new();
		if (mode == 5)
			jwt_builder_setkey(b, JWT_ALG_RS256, K.rsa_priv.item);
		else
			jwt_builder_setkey(b, JWT_ALG_HS256, K.oct_l.item);
		jwt_builder_enable_iat(b, cfg.iat);
		jwt_builder_time_offset(b, JWT_CLAIM_EXP, (time_t)cfg.exp_off);
		if (!cfg.claim_a.empty()) {
			jwt_value_t jv;
			jv_set_str(&jv, "a", cfg.claim_a.c_str(), 1);
			jwt_builder_claim_set(b, &jv);
		}
		if (cfg.cbmode) {
			*pc = ProgCtx();
			if (cfg.cbmode == 2)
				pc->ret = 1;
			if (cfg.cbmode == 3) {
				pc->set_key = true;
				pc->setkey = K.ec_pub.item; // public-only key: generate must fail
				pc->set_alg = JWT_ALG_ES256;
			}
			if (cfg.cbmode == 4) {
				pc->set_key = true;
				pc->setkey = mode == 5 ? K.ec_priv.item : K.oct2_l.item; // a per-token key override that comes and goes
				pc->set_alg = mode == 5 ? JWT_ALG_ES256 : JWT_ALG_HS256;
			}
			jwt_builder_setcb(b, prog_cb, pc);
		}
		return b;
	};

	bool builder_mode = mode == 2 || mode == 5;
	jwt_checker_t *chk = !builder_mode ? make_checker(&pc_long, &ring_long) : NULL;
	jwt_builder_t *bld = builder_mode ? make_builder(&pc_long) : NULL;

	for (size_t si = 0; si < plan.steps.size(); si++) {
		const Step &s = plan.steps[si];
		ctx.cur_step = (int)si;
		if (s.op == "CLEAR") {
			if (chk)
				jwt_checker_error_clear(chk);
			if (bld)
				jwt_builder_error_clear(bld);
			ctx.logf("CLEAR");
			hist = (hist << 8) | 0x01;
		} else if (s.op == "ADVANCE") {
			g_clock.advance(s.I("dt"));
			ctx.logf("ADVANCE -> %lld", (long long)g_clock.now());
		} else if (s.op == "CONFIG") {
			hist = (hist << 8) | (uint64_t)(0x02 + s.I("what"));
			// the same configuration call reaches the long-lived object and (later) every twin
			Armed a;
			switch (s.I("what")) {
			case 0:
				cfg.want_iss = true;
				cfg.iss = s.I("val") % 2 ? "issuer-x" : "issuer-y";
				if (chk)
					jwt_checker_claim_set(chk, JWT_CLAIM_ISS, cfg.iss.c_str());
				break;
			case 1:
				cfg.want_iss = false;
				if (chk)
					jwt_checker_claim_del(chk, JWT_CLAIM_ISS);
				break;
			case 5:
				// an expectation the JSON layer cannot store (not valid UTF-8): claim_set fails; reused and
				// fresh checkers are given the very same call
				cfg.want_iss = true;
				cfg.iss = "Soci\xe9t\xe9";
				if (chk)
					jwt_checker_claim_set(chk, JWT_CLAIM_ISS, cfg.iss.c_str());
				break;
			case 2:
				cfg.exp_on = s.I("val") % 4 != 0;
				cfg.exp_leeway = s.I("val") * 10;
				if (chk)
					jwt_checker_time_leeway(chk, JWT_CLAIM_EXP, cfg.exp_on ? (time_t)cfg.exp_leeway : (time_t)-1);
				cfg.exp_off = s.I("val") % 3 ? s.I("val") * 100 : 0;
				if (bld)
					jwt_builder_time_offset(bld, JWT_CLAIM_EXP, (time_t)cfg.exp_off);
				break;
			case 3:
				cfg.iat = s.I("val") % 2 != 0;
				if (bld)
					jwt_builder_enable_iat(bld, cfg.iat);
				break;
			default:
				cfg.claim_a = strf("v%lld", (long long)s.I("val"));
				if (bld) {
					jwt_value_t jv;
					jv_set_str(&jv, "a", cfg.claim_a.c_str(), 1);
					jwt_builder_claim_set(bld, &jv);
				}
			}
			ctx.logf("CONFIG what=%lld val=%lld", (long long)s.I("what"), (long long)s.I("val"));
		} else if (s.op == "CBMODE") {
			if (mode == 4)
				continue; // the ring callback stays
			cfg.cbmode = (int)s.I("mode");
			pc_long = ProgCtx();
			if (cfg.cbmode == 2)
				pc_long.ret = 1;
			if (cfg.cbmode == 3) {
				pc_long.set_key = true;
				pc_long.setkey = (mode == 2 || mode == 5) ? K.ec_pub.item : K.weak_l.item;
				pc_long.set_alg = (mode == 2 || mode == 5) ? JWT_ALG_ES256 : JWT_ALG_HS256;
			}
			if (cfg.cbmode == 4 && (mode == 0 || mode == 2)) {
				pc_long.set_key = true;
				pc_long.setkey = K.oct2_l.item;
				pc_long.set_alg = JWT_ALG_HS256;
			}
			if (cfg.cbmode == 4 && mode == 5) {
				pc_long.set_key = true;
				pc_long.setkey = K.ec_priv.item;
				pc_long.set_alg = JWT_ALG_ES256;
			}
			if (chk)
				jwt_checker_setcb(chk, cfg.cbmode ? prog_cb : NULL, cfg.cbmode ? &pc_long : NULL);
			if (bld)
				jwt_builder_setcb(bld, cfg.cbmode ? prog_cb : NULL, cfg.cbmode ? &pc_long : NULL);
			ctx.logf("CBMODE %d", cfg.cbmode);
		} else if (s.op == "CALL" && chk) {
			int kind = (int)s.I("kind") % TK_N;
			int64_t now = g_clock.now();
			std::string tok;
			const char *tokp = NULL;
			std::string hdr = mode == 0 ? "{\"alg\":\"HS256\",\"typ\":\"JWT\"}" : mode == 3 ? strf("{\"alg\":\"%s\"}", rsinfo->name) : "{\"alg\":\"none\"}";
			std::string iss = cfg.want_iss && cfg.iss != "Soci\xe9t\xe9" ? cfg.iss : "whoever";
			std::string pay = strf("{\"iss\":\"%s\",\"exp\":%lld}", iss.c_str(), (long long)(now + 1000));
			const KeyTruth *kt = mode == 0 ? K.oct.get() : mode == 3 ? K.rsa.get() : NULL;
			const AlgInfo *ka = mode == 0 ? hs256 : mode == 3 ? rsinfo : NULL;
			if (mode == 4) {
				int rk = (int)((uint64_t)s.I("rk") % 10);
				bool nokid = s.I("nokid") != 0;
				hdr = nokid ? "{\"alg\":\"HS256\"}" : strf("{\"alg\":\"HS256\",\"kid\":\"r%d\"}", rk);
				kt = ring_keys[nokid ? 0 : (size_t)rk].get();
				ka = hs256;
			}
			sim_entropy_point(mix64(plan.rng, s.uid));
			switch (kind) {
			case TK_VALID:
			case TK_VALID2:
				ref_make_token(hdr, pay, kt, ka, tok);
				break;
			case TK_NODOTS:
				tok = "nodotsatall";
				break;
			case TK_BADHDR:
				ref_make_token(hdr, pay, kt, ka, tok);
				tok[1] = '!';
				break;
			case TK_BADALG:
				ref_make_token("{\"alg\":\"HS999\"}", pay, kt, ka, tok);
				break;
			case TK_WRONGALG:
				ref_make_token(mode == 0 ? "{\"alg\":\"HS384\"}" : "{\"alg\":\"HS256\"}", pay, K.oct.get(), alg_by_name(mode == 0 ? "HS384" : "HS256"), tok);
				break;
			case TK_EXPIRED:
				ref_make_token(hdr, strf("{\"iss\":\"%s\",\"exp\":%lld}", iss.c_str(), (long long)(now - 100000)), kt, ka, tok);
				break;
			case TK_BADSIG:
				ref_make_token(hdr, pay, kt, ka, tok);
				if (mode == 0 || mode == 3)
					tok[tok.size() - 2] = tok[tok.size() - 2] == 'A' ? 'B' : 'A';
				else
					tok += "AAAA";
				break;
			case TK_NULL:
				break;
			case TK_EMPTY:
				tok = "";
				break;
			case TK_WRONGISS:
				ref_make_token(hdr, strf("{\"iss\":\"other\",\"exp\":%lld}", (long long)(now + 1000)), kt, ka, tok);
				break;
			case TK_NONE_UNSIGNED:
				ref_make_token("{\"alg\":\"none\"}", pay, NULL, NULL, tok);
				break;
			case TK_EXPSOON:
				// still valid, by a second or two or three
				ref_make_token(hdr, strf("{\"iss\":\"%s\",\"exp\":%lld,\"nbf\":%lld}", iss.c_str(), (long long)(now + s.I("soon")), (long long)(now - (s.I("soon") % 2))), kt, ka, tok);
				break;
			}
			if (kind != TK_NULL)
				tokp = tok.c_str();
			int64_t fail_at = s.I("failalloc");
			VerifyOut vo = lib_verify(ctx, chk, tokp, true, fail_at);
			// the twin: a freshly created, identically configured checker, same token, same instant
			// ... created and used on a fresh thread, so that thread-local state of the libraries (e.g. an
			// error queue left behind by an earlier rejected token) is as fresh as the checker itself
			VerifyOut vt;
			run_isolated(mix64(plan.rng, s.uid + 7777), [&]() {
				if (mode == 4) {
					// the twin's application is as fresh as its checker: the ring loaded anew from the same document
					Armed a;
					ring_twin = RingCtx();
					ring_twin.ring = jwks_create(ring_doc.c_str());
				}
				jwt_checker_t *twin = make_checker(&pc_twin, &ring_twin);
				vt = lib_verify(ctx, twin, tokp, true, 0);
				Armed a;
				jwt_checker_free(twin);
				if (mode == 4) {
					jwks_free(ring_twin.ring);
					ring_twin.ring = NULL;
				}
			});
			ctx.logf("CALL kind=%d -> reused %d ('%s') twin %d ('%s')%s", kind, vo.ret, vo.msg.c_str(), vt.ret, vt.msg.c_str(), vo.faults_fired ? " [alloc fault]" : "");
			ctx.sig(strf("C13|c%d|k%d|cb%d|%d|%d|f%d|h%llx|%s", mode, kind, cfg.cbmode, vo.ret != 0, vt.ret != 0, vo.faults_fired > 0, (unsigned long long)(hist & 0xffffff),
				     mode == 4 ? strf("rk%lld.%lld", (long long)s.I("rk"), (long long)s.I("nokid")).c_str() : ""));
			hist = (hist << 8) | (uint64_t)(0x10 + kind * 2 + (vo.ret != 0));
			if (vo.faults_fired) {
				// under an allocation fault: same verdict or a reported failure, never a wrong accept
				if (vo.ret == 0 && vt.ret != 0)
					ctx.violation("C13", "reused-accepts-under-fault", strf("kind%d", kind), "reused checker accepted under an allocation fault what a fresh checker rejects");
				jwt_checker_error_clear(chk);
			} else if ((vo.ret != 0) != (vt.ret != 0))
				ctx.violation("C13", "checker-verdict-differs", strf("mode%d:kind%d:cb%d:reused%d:twin%d", mode, kind, cfg.cbmode, vo.ret != 0, vt.ret != 0),
					      strf("reused checker returned %d ('%s'), a fresh identically configured checker returns %d ('%s') for token kind %d at now=%lld", vo.ret, vo.msg.c_str(), vt.ret,
						   vt.msg.c_str(), kind, (long long)now));
			// configuration must not drift
			const char *gi = jwt_checker_claim_get(chk, JWT_CLAIM_ISS);
			bool storable = cfg.iss != "Soci\xe9t\xe9";
			if (storable && (cfg.want_iss ? !(gi && cfg.iss == gi) : gi != NULL))
				ctx.violation("C13", "config-drift", "iss", strf("after the call the reused checker's expected iss is %s, configured %s", gi ? gi : "(null)", cfg.want_iss ? cfg.iss.c_str() : "(none)"));
			if (cfg.cbmode && jwt_checker_getctx(chk) != &pc_long)
				ctx.violation("C13", "config-drift", "ctx", "jwt_checker_getctx changed");
		} else if (s.op == "CALL" && bld) {
			int64_t fail_at = s.I("failalloc");
			sim_entropy_point(mix64(plan.rng, s.uid));
			std::string h0 = builder_snapshot(bld, true), c0 = builder_snapshot(bld, false);
			GenerateOut go = lib_generate(ctx, bld, true, fail_at);
			std::string h1 = builder_snapshot(bld, true), c1 = builder_snapshot(bld, false);
			GenerateOut gt;
			run_isolated(mix64(plan.rng, s.uid + 7777), [&]() {
				sim_entropy_point(mix64(plan.rng, s.uid));
				jwt_builder_t *twin = make_builder(&pc_twin);
				gt = lib_generate(ctx, twin, true, 0);
				Armed a;
				jwt_builder_free(twin);
			});
			ctx.logf("CALL generate -> reused %s ('%s') twin %s ('%s')%s", go.ok ? "token" : "NULL", go.msg.c_str(), gt.ok ? "token" : "NULL", gt.msg.c_str(), go.faults_fired ? " [alloc fault]" : "");
			ctx.sig(strf("C13|b|cb%d|%d|%d|f%d|h%llx", cfg.cbmode, go.ok, gt.ok, go.faults_fired > 0, (unsigned long long)(hist & 0xffffff)));
			hist = (hist << 8) | (uint64_t)(0x80 + cfg.cbmode * 2 + go.ok);
			if (go.faults_fired) {
				// content of a token produced under an allocation fault is C17's business (it can tell the
				// jansson dependency defects apart); here only the state carried over to later calls matters
				jwt_builder_error_clear(bld);
			} else if (go.ok != gt.ok)
				ctx.violation("C13", "builder-outcome-differs", strf("cb%d:reused%d:twin%d", cfg.cbmode, go.ok, gt.ok),
					      strf("reused builder %s ('%s'), a fresh identically configured builder %s ('%s')", go.ok ? "generated" : "failed", go.msg.c_str(), gt.ok ? "generates" : "fails", gt.msg.c_str()));
			else if (go.ok && mode == 5 && cfg.cbmode == 4) {
				// ES256 is randomised: the reused builder's token must at least be what it claims to be
				TokenParts tpz;
				token_split(go.token, tpz);
				const AlgInfo *es = alg_by_name("ES256");
				if (!(tpz.alg_is_string && tpz.alg == "ES256") || !ref_sig_valid(*K.ec, *es, tpz.signing_input, tpz.seg[2]))
					ctx.violation("C13", "builder-token-differs", "cb4:es256-invalid",
						      strf("reused builder whose callback selected the EC key for this token produced %s, which is not a valid ES256 token under that key (a fresh builder's is)", show(go.token, 200).c_str()));
			} else if (go.ok && go.token != gt.token)
				ctx.violation("C13", "builder-token-differs", strf("cb%d", cfg.cbmode), strf("reused builder produced %s, a fresh one %s (HS256 and RS256 are deterministic)", show(go.token, 200).c_str(), show(gt.token, 200).c_str()));
			if ((h0 != h1 || c0 != c1) && !go.faults_fired)
				ctx.violation("C13", "config-drift", "builder-content", "builder headers/claims changed across a generate call");
		}
	}
	if (chk) {
		Armed a;
		jwt_checker_free(chk);
	}
	if (bld) {
		Armed a;
		jwt_builder_free(bld);
	}
	if (ring_long.ring) {
		Armed a;
		jwks_free(ring_long.ring);
	}
	K.fini();
	monitor_no_leak(ctx, "C06", "reuse-run");
}

extern const Profile PROFILE_REUSE = {"reuse", reuse_gen, reuse_exec};

// ================================================================ callback (C19)
static void callback_gen(Rng &r, Plan &p, Tier tier, uint64_t index)
{
	p.cfg["reuse"] = Val((int64_t)(r.chance(1, 4) ? 1 : 0)); // allocator address reuse (see SimAlloc::reuse)
	(void)index;
	(void)tier;
	p.cfg["signed"] = Val((int64_t)r.below(2));
	p.cfg["allocfaults"] = Val((int64_t)(r.chance(1, 4) ? 1 : 0));
	int n = (int)r.range(3, 14);
	for (int i = 0; i < n; i++) {
		Step s;
		int k = (int)r.below(10);
		if (k < 2) {
			s = Step("POLICY");
			s.set("exp_on", r.chance(3, 4) ? 1 : 0);
			s.set("nbf_on", r.chance(3, 4) ? 1 : 0);
			s.set("leeway", (int64_t)r.pick(std::vector<int>{0, 0, 5, 60}));
			s.set("iss", r.range(0, 2)); // 0 none, 1 expect issuer-x, 2 expect issuer-y
			s.set("sub", r.range(0, 1));
			s.set("aud", r.range(0, 1));
		} else if (k < 3) {
			s = Step("ADVANCE");
			s.set("dt", r.range(0, 10));
		} else {
			s = Step("VERIFY");
			// which single check the token fails: 0 none, 1 expired by 1s, 2 not yet valid by 1s, 3 wrong iss, 4 wrong sub, 5 wrong aud,
			// 6 exp wrong type, 7 iss absent
			int fail = (int)r.pick(std::vector<int>{0, 0, 1, 1, 1, 2, 2, 3, 3, 4, 5, 6, 7});
			s.set("fail", fail);
			s.set("cbret", r.chance(1, 8) ? 1 : 0);
			if (p.C("allocfaults") && r.chance(1, 2))
				s.set("failalloc", r.range(1, 75));
			// callback selects key/alg: 1 admissible pair, 2 alg mismatch, 3 key without alg and no alg,
			// 4 keeps the key installed by setkey (it carries alg HS256) and sets alg HS512, 5 same but sets the key's own alg
			s.set("cbsel", r.chance(1, 6) ? r.range(1, 5) : 0);
			// program biased to touch exactly the claim the token fails on
			static const int focus[] = {-1, 3, 4, 6, 5, 7, 3, 6};
			int kk = (int)r.range(1, 4);
			for (int j = 0; j < kk; j++) {
				Step e = gen_edit(r, focus[fail]);
				if (focus[fail] >= 0 && r.chance(1, 2))
					e.set("hdr", 0);
				s.sub.push_back(e);
			}
		}
		s.uid = (uint64_t)i + 1;
		p.steps.push_back(s);
	}
}

static void callback_exec(Ctx &ctx)
{
	const Plan &plan = *ctx.plan;
	bool is_signed = plan.C("signed") != 0;
	Keys K;
	K.init(ctx, plan.rng);
	// an oct key that carries its own alg, for callback-selected pairs
	Rng r2(mix64(plan.rng, 0xC19));
	KeyRef oct_alg = key_gen_oct(r2, 64); // long enough for HS512, tagged HS256
	LoadedKey oct_alg_l;
	{
		JwkOpts o;
		o.has_alg = true;
		o.alg = "HS256";
		lib_load_key(ctx, jwk_export(*oct_alg, o), oct_alg_l);
	}
	const AlgInfo *hs256 = alg_by_name("HS256");
	struct {
		bool exp_on = true, nbf_on = true;
		int64_t leeway = 0;
		int iss = 0, sub = 0, aud = 0;
	} pol;
	ctx.nontrivial = true;

	auto make_checker = [&](bool with_key) -> jwt_checker_t * {
		Armed a;
		jwt_checker_t *c = jwt_checker_new();
		if (with_key)
			jwt_checker_setkey(c, JWT_ALG_HS256, K.oct_l.item);
		jwt_checker_time_leeway(c, JWT_CLAIM_EXP, pol.exp_on ? (time_t)pol.leeway : (time_t)-1);
		jwt_checker_time_leeway(c, JWT_CLAIM_NBF, pol.nbf_on ? (time_t)pol.leeway : (time_t)-1);
		if (pol.iss)
			jwt_checker_claim_set(c, JWT_CLAIM_ISS, pol.iss == 1 ? "issuer-x" : "issuer-y");
		if (pol.sub)
			jwt_checker_claim_set(c, JWT_CLAIM_SUB, "someone");
		if (pol.aud)
			jwt_checker_claim_set(c, JWT_CLAIM_AUD, "audience-1");
		return c;
	};

	for (size_t si = 0; si < plan.steps.size(); si++) {
		const Step &s = plan.steps[si];
		ctx.cur_step = (int)si;
		if (s.op == "POLICY") {
			pol.exp_on = s.I("exp_on") != 0;
			pol.nbf_on = s.I("nbf_on") != 0;
			pol.leeway = s.I("leeway");
			pol.iss = (int)s.I("iss");
			pol.sub = (int)s.I("sub");
			pol.aud = (int)s.I("aud");
			ctx.logf("POLICY exp=%d nbf=%d leeway=%lld iss=%d sub=%d aud=%d", pol.exp_on, pol.nbf_on, (long long)pol.leeway, pol.iss, pol.sub, pol.aud);
		} else if (s.op == "ADVANCE") {
			g_clock.advance(s.I("dt"));
		} else if (s.op == "VERIFY") {
			int64_t now = g_clock.now();
			int fail = (int)s.I("fail");
			std::string iss = pol.iss == 2 ? "issuer-y" : "issuer-x";
			std::string exp = strf("%lld", (long long)(now - pol.leeway + (fail == 1 ? 0 : 1000)));
			if (fail == 6)
				exp = "\"tomorrow\"";
			std::string nbf = strf("%lld", (long long)(now + pol.leeway + (fail == 2 ? 1 : 0)));
			std::string pay = "{";
			if (fail != 7)
				pay += strf("\"iss\":\"%s\",", fail == 3 ? "intruder" : iss.c_str());
			pay += strf("\"sub\":\"%s\",\"aud\":\"%s\",\"exp\":%s,\"nbf\":%s,\"a\":1}", fail == 4 ? "someone-else" : "someone", fail == 5 ? "audience-2" : "audience-1", exp.c_str(), nbf.c_str());
			std::string tok;
			int cbsel = (int)s.I("cbsel");
			if (is_signed && (cbsel == 4 || cbsel == 5)) {
				// signed with the tagged key's material under the algorithm the callback will name
				const AlgInfo *ca = alg_by_name(cbsel == 4 ? "HS512" : "HS256");
				ref_make_token(strf("{\"alg\":\"%s\",\"typ\":\"JWT\"}", ca->name), pay, oct_alg.get(), ca, tok);
			} else
				ref_make_token(is_signed ? "{\"alg\":\"HS256\",\"typ\":\"JWT\"}" : "{\"alg\":\"none\"}", pay, is_signed ? K.oct.get() : NULL, is_signed ? hs256 : NULL, tok);

			bool cbret = s.I("cbret") != 0;
			// twin without callback
			jwt_checker_t *plain = make_checker(is_signed && cbsel < 4);
			if (is_signed && cbsel >= 4) {
				Armed a;
				jwt_checker_setkey(plain, JWT_ALG_NONE, oct_alg_l.item);
			}
			VerifyOut v0 = lib_verify(ctx, plain, tok.c_str());
			{
				Armed a;
				jwt_checker_free(plain);
			}
			// with the program callback
			jwt_checker_t *c = make_checker(is_signed && cbsel == 0);
			if (is_signed && cbsel >= 4) {
				Armed a;
				jwt_checker_setkey(c, JWT_ALG_NONE, oct_alg_l.item);
			}
			ProgCtx pc;
			pc.prog = &s.sub;
			pc.ret = cbret ? 1 : 0;
			bool sel_admissible = true;
			if (cbsel >= 4 && is_signed) {
				// key untouched, only the algorithm changes
				pc.set_alg = cbsel == 4 ? JWT_ALG_HS512 : JWT_ALG_HS256;
				sel_admissible = cbsel == 5;
			} else if (cbsel && is_signed) {
				pc.set_key = true;
				if (cbsel == 1) {
					pc.setkey = K.oct_l.item;
					pc.set_alg = JWT_ALG_HS256;
				} else if (cbsel == 2) {
					pc.setkey = oct_alg_l.item; // key alg HS256, callback says HS384: outside the table
					pc.set_alg = JWT_ALG_HS384;
					sel_admissible = false;
				} else {
					pc.setkey = K.oct_l.item; // key without alg and no alg given
					pc.set_alg = JWT_ALG_NONE;
					sel_admissible = false;
				}
			}
			jwt_checker_setcb(c, prog_cb, &pc);
			// a quarter of the histories: one allocation of the verify that runs the callback fails (never inside jansson's
			// parser). The promise then reads: a callback that returns 0 never turns a rejection into an acceptance.
			g_alloc.spare_jansson = true;
			VerifyOut v1 = lib_verify(ctx, c, tok.c_str(), true, s.I("failalloc"));
			g_alloc.spare_jansson = false;
			bool faulted = v1.faults_fired > 0;
			if (faulted)
				ctx.count("fault:alloc_fail_in_verify_with_callback");
			{
				Armed a;
				jwt_checker_free(c);
			}
			std::string progdesc;
			for (auto &e : s.sub) {
				if (!progdesc.empty())
					progdesc += ";";
				progdesc += strf("%s.%s:%s", e.I("hdr") ? "hdr" : "claims", edit_name(e), e.I("act") == 0 ? (e.I("replace") ? "replace" : "set") : e.I("act") == 1 ? "del" : e.I("act") == 3 ? "invalid-request" : "del-all");
			}
			ctx.logf("VERIFY now=%lld fail=%d prog=[%s] cbret=%d cbsel=%d -> without cb %d ('%s'), with cb %d ('%s')", (long long)now, fail, progdesc.c_str(), cbret, cbsel, v0.ret, v0.msg.c_str(),
				 v1.ret, v1.msg.c_str());
			ctx.sig(strf("C19|s%d|f%d|%s|r%d|sel%d|%d|%d", is_signed, fail, progdesc.c_str(), cbret, cbsel, v0.ret != 0, v1.ret != 0));
			if (pc.calls == 0 && !faulted)
				ctx.violation("C19", "callback-not-run", "verify", "the checker callback was not invoked");
			if (cbret) {
				// a callback that returns non-zero always makes verification fail
				if (v1.ret == 0)
					ctx.violation("C19", "cb-error-accepted", strf("fail%d", fail), "callback returned non-zero but jwt_checker_verify returned 0");
			} else if (cbsel && is_signed && !sel_admissible) {
				// a key and algorithm the callback selects are subject to the same admission rules as setkey
				if (v1.ret == 0)
					ctx.violation("C19", "cb-inadmissible-accepted", strf("cbsel%d", cbsel), "callback selected a key/alg pair outside the setkey table and verification succeeded");
			} else if (faulted ? (v0.ret != 0 && v1.ret == 0) : ((v0.ret != 0) != (v1.ret != 0))) {
				// which edit bent it: name the first edit touching a standard claim
				std::string cause = "other";
				for (auto &e : s.sub) {
					std::string n = edit_name(e);
					if (e.I("act") == 3) {
						cause = "invalid-request";
						continue; // a later edit of a standard claim names the cause more precisely
					}
					if (!e.I("hdr") && e.I("act") == 2) {
						cause = "claims:del-all";
						break;
					}
					if (!e.I("hdr") && (n == "exp" || n == "nbf" || n == "iss" || n == "sub" || n == "aud")) {
						cause = "claims." + n + ":" + (e.I("act") == 0 ? "set" : "del");
						break;
					}
				}
				ctx.violation("C19", "callback-bends-verdict", strf("%s:%s", v0.ret ? "reject->accept" : "accept->reject", cause.c_str()),
					      strf("same checker configuration, token and instant: without callback verify returns %d ('%s'), with a callback that returns 0, leaves key and alg alone and runs "
						   "[%s] on the jwt_t it returns %d ('%s'); payload=%s",
						   v0.ret, v0.msg.c_str(), progdesc.c_str(), v1.ret, v1.msg.c_str(), pay.c_str()));
			}
		}
	}
	lib_free_key(oct_alg_l);
	K.fini();
	monitor_no_leak(ctx, "C06", "callback-run");
}

extern const Profile PROFILE_CALLBACK = {"callback", callback_gen, callback_exec};
