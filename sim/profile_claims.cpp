// Profile "claims" (C04): configuration histories on one checker, a simulated clock driven to
// the boundary second, pristine tokens (signed and unsigned) built by the reference, and a
// claims model written from the property statement. accept <=> model passes.
#include "lib.hpp"

#define LONG300 "https://issuer.example.com/tenants/" \
	"aaaaaaaaaaaaaaaaaaaaaaaaaaaaaaaaaaaaaaaaaaaaaaaaaaaaaaaaaaaaaaaaaaaaaaaaaaaaaaaaaaaaaaaaaaaaaaaaaaaaaaaaaaaaaaaaaaaaaaaaaaaaaaaaaaaaaaaaaaaaaaaaaaaaaaaaaaaaaaaaaaaaaaaaaaaaaaaaaaaaaaaaaaaaaaaaaaaaaaaaaaaaaaaaaaaaaaaaaaaaaaaaaaaaaaaaaaaaaaaaaaaaaaaaaaaaaaaaaaaaaaaaaaaaaaaaaaaaaaaaaaaaaa"
static const char *EXPECT_POOL[] = {"", "a", "issuer", "https://idp.example.com/", "\xc3\x9cn\xc3\xaf" "c\xc3\xb6" "d\xc3\xa9",
				    "A", "iss uer", "x\"y\\z", "0", "null", LONG300, LONG300 LONG300 LONG300 LONG300};
static const int64_t INT_POOL[] = {0, 1, -1, 1700000000, 2147483647LL, 2147483648LL, -2147483648LL, -2147483649LL,
				   4294967296LL, INT64_MAX, INT64_MIN, INT64_MAX - 1, INT64_MIN + 1, 1699999999, 1700000001};

enum { CL_ISS = 0, CL_SUB = 1, CL_AUD = 2 };
static const jwt_claims_t CL_TYPE[3] = {JWT_CLAIM_ISS, JWT_CLAIM_SUB, JWT_CLAIM_AUD};
static const char *CL_NAME[3] = {"iss", "sub", "aud"};

// ---------------------------------------------------------------- generator
static Step gen_verify(Rng &r)
{
	Step s("VERIFY");
	for (const char *w : {"exp", "nbf"}) {
		std::string p = w;
		int mode = (int)r.pick(std::vector<int>{0, 0, 1, 2, 2, 2, 2, 3});
		s.set(p + "_mode", mode);
		if (mode == 1)
			s.set(p + "_val", r.pick(INT_POOL));
		if (mode == 2)
			s.set(p + "_delta", r.range(-2, 2));
		if (mode == 3)
			s.set(p + "_type", r.range(0, 8));
	}
	for (int c = 0; c < 3; c++)
		s.set(std::string(CL_NAME[c]) + "_kind", r.chance(3, 4) ? 0 : r.range(0, 14));
	// drive the clock to a boundary instant computed from the token and the leeway in force
	int ct = (int)r.pick(std::vector<int>{0, 0, 1, 2});
	s.set("clock_to", ct);
	if (ct)
		s.set("clock_delta", r.range(-2, 2));
	return s;
}

static void claims_gen(Rng &r, Plan &p, Tier tier, uint64_t index)
{
	(void)index;
	p.cfg["signed"] = Val((int64_t)r.below(2));
	p.cfg["tick_every"] = Val((int64_t)(r.chance(1, 6) ? r.range(1, 3) : 0));
	p.cfg["skew"] = Val(r.chance(1, 4) ? r.range(-86400, 86400) : (int64_t)0);
	int n = (int)r.range(8, tier == QUICK ? 40 : 90);
	uint64_t uid = 1;
	for (int i = 0; i < n; i++) {
		Step s;
		switch (r.below(10)) {
		case 0: {
			s = Step("LEEWAY");
			s.set("claim", r.chance(5, 6) ? r.range(0, 1) : r.range(2, 4)); // 0 exp 1 nbf, else invalid
			int64_t secs;
			switch (r.below(6)) {
			case 0:
				secs = -1;
				break;
			case 1:
				secs = r.chance(1, 2) ? -5 : INT64_MIN;
				break;
			case 2:
				secs = 0;
				break;
			case 3:
				secs = r.range(1, 120);
				break;
			case 4:
				secs = r.range(1, 1LL << 40);
				break;
			default:
				secs = 1LL << r.range(0, 40);
			}
			s.set("secs", secs);
			break;
		}
		case 1:
		case 2: {
			s = Step("CSET");
			s.set("claim", r.chance(7, 8) ? r.range(0, 2) : r.range(3, 5)); // 3.. invalid types
			s.set("value", (int64_t)r.below(ARRAY_LEN(EXPECT_POOL)));
			if (r.chance(1, 12))
				s.set("null", 1);
			break;
		}
		case 3: {
			s = Step("CDEL");
			s.set("claim", r.chance(7, 8) ? r.range(0, 2) : r.range(3, 5));
			break;
		}
		case 4: {
			s = Step("ADVANCE");
			s.set("dt", r.chance(1, 2) ? r.range(-10, 100) : r.range(-(1LL << 33), 1LL << 33));
			break;
		}
		default:
			s = gen_verify(r);
		}
		s.uid = uid++;
		p.steps.push_back(s);
	}
}

// ---------------------------------------------------------------- model
struct ClaimsModel {
	bool exp_on = true, nbf_on = true;
	int64_t exp_leeway = 0, nbf_leeway = 0;
	bool want[3] = {false, false, false};
	std::string expect[3];
};

// raw JSON text for a value of the wrong type in place of exp/nbf
static std::string wrong_type_json(int t, int64_t near)
{
	switch (t) {
	case 0:
		return strf("\"%lld\"", (long long)near);
	case 1:
		return strf("%lld.0", (long long)near);
	case 2:
		return "true";
	case 3:
		return "null";
	case 4:
		return strf("[%lld]", (long long)near);
	case 5:
		return strf("{\"v\":%lld}", (long long)near);
	case 6:
		return "36893488147419103232"; // 2^65
	case 7:
		return "1e30";
	default:
		return "false";
	}
}

static std::string json_quote(const std::string &s, bool with_nul_tail = false)
{
	std::string raw = s;
	if (with_nul_tail) {
		raw.push_back('\0');
		raw += "x";
	}
	json_t *j = json_stringn_nocheck(raw.data(), raw.size());
	std::string r = json_text(j);
	json_decref(j);
	return r;
}

// the claim text a token carries for kind k relative to the expected string e
static bool str_claim_json(int kind, const std::string &e, std::string &out)
{
	switch (kind) {
	case 0:
		out = json_quote(e);
		return true;
	case 1:
		return false; // absent
	case 2:
		out = json_quote(e.empty() ? "x" : e.substr(0, e.size() - 1));
		return true;
	case 3:
		out = json_quote(e + "x");
		return true;
	case 4: {
		std::string c = e;
		bool changed = false;
		for (auto &ch : c)
			if (isalpha((unsigned char)ch)) {
				ch = (char)(ch ^ 0x20);
				changed = true;
				break;
			}
		if (!changed)
			c += "Q";
		out = json_quote(c);
		return true;
	}
	case 5:
		out = "\"\"";
		return true;
	case 6:
		out = json_quote(e + "\xc3\xa9");
		return true;
	case 7:
		out = json_quote(e, true);
		return true;
	case 8:
		out = "[" + json_quote(e) + "]";
		return true;
	case 9:
		out = "5";
		return true;
	case 10:
		out = json_quote("some-other-" + e);
		return true;
	case 11:
		out = "null";
		return true;
	case 12:
		out = "{\"v\":" + json_quote(e) + "}";
		return true;
	case 13: { // same length, only the last byte differs
		std::string c = e.empty() ? std::string("x") : e;
		c.back() = c.back() == 'z' ? 'y' : 'z';
		out = json_quote(c);
		return true;
	}
	default: { // same length, differs somewhere in the last quarter (late difference in a long value)
		std::string c = e.empty() ? std::string("x") : e;
		size_t p = c.size() - 1 - (c.size() / 4) / 2;
		c[p] = c[p] == 'Q' ? 'R' : 'Q';
		out = json_quote(c);
		return true;
	}
	}
}

// Model verdict for payload text at instant `now`; fills `why` with the failing checks.
static bool model_pass(const ClaimsModel &m, const std::string &payload, int64_t now, std::string &why)
{
	why.clear();
	json_t *p = json_loadb(payload.data(), payload.size(), JSON_ALLOW_NUL, NULL);
	if (!p) {
		why = "payload-not-json";
		return false;
	}
	bool ok = true;
	if (m.exp_on) {
		json_t *e = json_object_get(p, "exp");
		if (e) {
			if (!json_is_integer(e)) {
				ok = false;
				why += "exp-type,";
			} else if (!((__int128)json_integer_value(e) > (__int128)now - (__int128)m.exp_leeway)) {
				ok = false;
				why += "exp,";
			}
		}
	}
	if (m.nbf_on) {
		json_t *e = json_object_get(p, "nbf");
		if (e) {
			if (!json_is_integer(e)) {
				ok = false;
				why += "nbf-type,";
			} else if (!((__int128)json_integer_value(e) <= (__int128)now + (__int128)m.nbf_leeway)) {
				ok = false;
				why += "nbf,";
			}
		}
	}
	for (int c = 0; c < 3; c++) {
		if (!m.want[c])
			continue;
		json_t *e = json_object_get(p, CL_NAME[c]);
		bool eq = e && json_is_string(e) && json_string_length(e) == m.expect[c].size() &&
			  memcmp(json_string_value(e), m.expect[c].data(), m.expect[c].size()) == 0;
		if (!eq) {
			ok = false;
			why += std::string(CL_NAME[c]) + ",";
		}
	}
	json_decref(p);
	if (why.empty())
		why = "none";
	return ok;
}

static bool strict_json_ok(const std::string &payload)
{
	json_t *p = json_loadb(payload.data(), payload.size(), 0, NULL);
	if (!p)
		return false;
	json_decref(p);
	return true;
}

// ---------------------------------------------------------------- executor
static void claims_exec(Ctx &ctx)
{
	const Plan &plan = *ctx.plan;
	bool is_signed = plan.C("signed") != 0;
	g_clock.skew = plan.C("skew");
	Rng krng(mix64(plan.rng, 0xC04));
	KeyRef key = key_gen_oct(krng, 32);
	LoadedKey lk;
	lk.truth = key;
	const AlgInfo *hs256 = alg_by_name("HS256");

	jwt_checker_t *chk;
	{
		Armed a;
		chk = jwt_checker_new();
	}
	if (!chk) {
		ctx.logf("checker_new failed");
		return;
	}
	if (is_signed) {
		JwkOpts o;
		if (!lib_load_key(ctx, jwk_export(*key, o), lk) || jwt_checker_setkey(chk, JWT_ALG_HS256, lk.item) != 0) {
			ctx.violation("C04", "setup", "cannot-configure-hs256-checker", "loading a 32-byte oct key / setkey(HS256) failed");
			jwt_checker_free(chk);
			lib_free_key(lk);
			return;
		}
	}
	ClaimsModel m;
	int n_cfg = 0, n_ver = 0;
	{
		int pc = 0, pv = 0;
		for (auto &s : plan.steps) {
			if (s.op == "VERIFY")
				pv++;
			else if (s.op != "ADVANCE")
				pc++;
		}
		ctx.nontrivial = pc > 0 && pv > 0;
	}

	for (size_t si = 0; si < plan.steps.size(); si++) {
		const Step &s = plan.steps[si];
		ctx.cur_step = (int)si;
		if (s.op == "LEEWAY") {
			int64_t cl = s.I("claim"), secs = s.I("secs");
			jwt_claims_t type = cl == 0 ? JWT_CLAIM_EXP : cl == 1 ? JWT_CLAIM_NBF : cl == 2 ? JWT_CLAIM_ISS : cl == 3 ? JWT_CLAIM_IAT : (jwt_claims_t)0;
			int r = jwt_checker_time_leeway(chk, type, (time_t)secs);
			ctx.logf("LEEWAY claim=%lld secs=%lld -> %d", (long long)cl, (long long)secs, r);
			int want = cl <= 1 ? 0 : 1;
			if (cl == 0) {
				m.exp_on = secs >= 0;
				m.exp_leeway = secs;
			} else if (cl == 1) {
				m.nbf_on = secs >= 0;
				m.nbf_leeway = secs;
			}
			if ((r != 0) != (want != 0))
				ctx.violation("C04", "config-return", strf("time_leeway:claim%lld", (long long)cl),
					      strf("jwt_checker_time_leeway(claim %lld, %lld) returned %d, expected %s", (long long)cl,
						   (long long)secs, r, want ? "non-zero" : "0"));
			ctx.count(secs < 0 ? "probe:leeway_negative_switches_off" : "probe:leeway_nonnegative");
			n_cfg++;
		} else if (s.op == "CSET") {
			int64_t cl = s.I("claim");
			const char *val = s.I("null") ? NULL : EXPECT_POOL[(size_t)s.I("value") % ARRAY_LEN(EXPECT_POOL)];
			jwt_claims_t type = cl <= 2 ? CL_TYPE[cl] : cl == 3 ? JWT_CLAIM_EXP : cl == 4 ? JWT_CLAIM_JTI : (jwt_claims_t)0;
			int r;
			{
				Armed a;
				r = jwt_checker_claim_set(chk, type, val);
			}
			ctx.logf("CSET claim=%lld value=%s -> %d", (long long)cl, val ? show(val).c_str() : "(null)", r);
			int want = (cl <= 2 && val) ? 0 : 1;
			if (want == 0) {
				m.want[cl] = true;
				m.expect[cl] = val;
			}
			if ((r != 0) != (want != 0))
				ctx.violation("C04", "config-return", strf("claim_set:claim%lld", (long long)cl),
					      strf("jwt_checker_claim_set returned %d, expected %s", r, want ? "non-zero" : "0"));
			n_cfg++;
		} else if (s.op == "CDEL") {
			int64_t cl = s.I("claim");
			jwt_claims_t type = cl <= 2 ? CL_TYPE[cl] : cl == 3 ? JWT_CLAIM_NBF : cl == 4 ? JWT_CLAIM_IAT : (jwt_claims_t)0;
			int r;
			{
				Armed a;
				r = jwt_checker_claim_del(chk, type);
			}
			ctx.logf("CDEL claim=%lld -> %d", (long long)cl, r);
			int want = cl <= 2 ? 0 : 1;
			if (want == 0) {
				m.want[cl] = false;
				m.expect[cl].clear();
			}
			if ((r != 0) != (want != 0))
				ctx.violation("C04", "config-return", strf("claim_del:claim%lld", (long long)cl),
					      strf("jwt_checker_claim_del returned %d, expected %s", r, want ? "non-zero" : "0"));
			n_cfg++;
		} else if (s.op == "ADVANCE") {
			g_clock.advance(s.I("dt"));
			ctx.logf("ADVANCE %lld -> now=%lld", (long long)s.I("dt"), (long long)g_clock.now());
			continue;
		} else if (s.op == "VERIFY") {
			// Build the payload relative to the policy in force and the current instant.
			int64_t now = g_clock.now();
			std::string members;
			auto add = [&](const std::string &name, const std::string &raw) {
				if (!members.empty())
					members += ",";
				members += "\"" + name + "\":" + raw;
			};
			int64_t expv = 0, nbfv = 0;
			bool exp_int = false, nbf_int = false;
			int em = (int)s.I("exp_mode"), nm = (int)s.I("nbf_mode");
			if (em == 1) {
				expv = s.I("exp_val");
				exp_int = true;
			} else if (em == 2) {
				// boundary: accepted iff exp > now - leeway
				__int128 b = (__int128)now - (m.exp_on ? m.exp_leeway : 0) + s.I("exp_delta");
				expv = (int64_t)b;
				exp_int = true;
			}
			if (nm == 1) {
				nbfv = s.I("nbf_val");
				nbf_int = true;
			} else if (nm == 2) {
				__int128 b = (__int128)now + (m.nbf_on ? m.nbf_leeway : 0) + s.I("nbf_delta");
				nbfv = (int64_t)b;
				nbf_int = true;
			}
			if (exp_int)
				add("exp", strf("%lld", (long long)expv));
			else if (em == 3)
				add("exp", wrong_type_json((int)s.I("exp_type"), now + 1000));
			if (nbf_int)
				add("nbf", strf("%lld", (long long)nbfv));
			else if (nm == 3)
				add("nbf", wrong_type_json((int)s.I("nbf_type"), now - 1000));
			for (int c = 0; c < 3; c++) {
				std::string raw;
				std::string e = m.want[c] ? m.expect[c] : std::string("dflt");
				if (str_claim_json((int)s.I(std::string(CL_NAME[c]) + "_kind"), e, raw))
					add(CL_NAME[c], raw);
			}
			std::string payload = "{" + members + "}";
			// optionally move the clock to a boundary instant of this token
			int ct = (int)s.I("clock_to");
			if (ct == 1 && exp_int && m.exp_on) {
				// accepted iff now < exp + leeway
				__int128 t = (__int128)expv + m.exp_leeway + s.I("clock_delta") - 1 - g_clock.skew;
				if (t > -(((__int128)1) << 62) && t < (((__int128)1) << 62)) {
					g_clock.jump((int64_t)t);
					ctx.count("probe:clock_driven_to_exp_boundary");
				}
			} else if (ct == 2 && nbf_int && m.nbf_on) {
				// accepted iff now >= nbf - leeway
				__int128 t = (__int128)nbfv - m.nbf_leeway + s.I("clock_delta") - g_clock.skew;
				if (t > -(((__int128)1) << 62) && t < (((__int128)1) << 62)) {
					g_clock.jump((int64_t)t);
					ctx.count("probe:clock_driven_to_nbf_boundary");
				}
			}
			std::string tok;
			std::string hdr = is_signed ? "{\"alg\":\"HS256\",\"typ\":\"JWT\"}" : "{\"alg\":\"none\"}";
			ref_make_token(hdr, payload, is_signed ? key.get() : NULL, is_signed ? hs256 : NULL, tok);

			g_clock.tick_every = plan.C("tick_every");
			g_clock.reads = 0;
			int64_t now0 = g_clock.now();
			VerifyOut vo = lib_verify(ctx, chk, tok.c_str());
			int64_t now1 = g_clock.now();
			g_clock.tick_every = 0;
			if (now1 != now0)
				ctx.count("fault:clock_ticked_during_verify");

			std::string why0, why1;
			bool p0 = model_pass(m, payload, now0, why0);
			bool p1 = now1 == now0 ? p0 : model_pass(m, payload, now1, why1);
			bool allsame = p0 == p1;
			for (int64_t t = now0 + 1; allsame && t < now1; t++) {
				std::string w;
				if (model_pass(m, payload, t, w) != p0)
					allsame = false;
			}
			ctx.logf("VERIFY now=%lld payload=%s -> ret=%d msg='%s' model=%d(%s)", (long long)now0,
				 show(payload, 160).c_str(), vo.ret, vo.msg.c_str(), p0, why0.c_str());
			n_ver++;
			// probes: exactly at the boundary second
			if (m.exp_on && exp_int && (__int128)expv == (__int128)now0 - m.exp_leeway)
				ctx.count("probe:verify_exactly_at_exp_boundary_reject_side");
			if (m.exp_on && exp_int && (__int128)expv == (__int128)now0 - m.exp_leeway + 1)
				ctx.count("probe:verify_exactly_at_exp_boundary_accept_side");
			if (m.nbf_on && nbf_int && (__int128)nbfv == (__int128)now0 + m.nbf_leeway)
				ctx.count("probe:verify_exactly_at_nbf_boundary_accept_side");
			if (m.nbf_on && nbf_int && (__int128)nbfv == (__int128)now0 + m.nbf_leeway + 1)
				ctx.count("probe:verify_exactly_at_nbf_boundary_reject_side");
			ctx.sig(strf("C04|s%d|e%d.%lld|n%d.%lld|i%lld|s%lld|a%lld|on%d%d|w%d%d%d|v%d|%s", is_signed, em,
				     (long long)(em == 2 ? s.I("exp_delta") : em == 3 ? s.I("exp_type") : 0), nm,
				     (long long)(nm == 2 ? s.I("nbf_delta") : nm == 3 ? s.I("nbf_type") : 0),
				     (long long)s.I("iss_kind"), (long long)s.I("sub_kind"), (long long)s.I("aud_kind"), m.exp_on,
				     m.nbf_on, m.want[0], m.want[1], m.want[2], vo.ret == 0, why0.c_str()));
			if (!allsame) {
				ctx.count("probe:verdict_depends_on_tick_dont_care");
			} else if (p0 && vo.ret != 0 && !strict_json_ok(payload)) {
				// The statement is silent on documents the JSON layer itself refuses in its default
				// mode (escaped NUL inside a string, integers beyond 64 bits): don't-care cell.
				ctx.count("probe:policy_satisfied_but_json_layer_refuses_dont_care");
			} else if (p0 && vo.ret != 0) {
				ctx.violation("C04", "claims-complete", "rejected-but-policy-satisfied:" + msg_class(vo.msg),
					      strf("token satisfies the configured policy at now=%lld but jwt_checker_verify "
						   "returned %d ('%s'); payload=%s exp_on=%d leeway=%lld nbf_on=%d leeway=%lld",
						   (long long)now0, vo.ret, vo.msg.c_str(), show(payload, 300).c_str(), m.exp_on,
						   (long long)m.exp_leeway, m.nbf_on, (long long)m.nbf_leeway));
			} else if (!p0 && vo.ret == 0) {
				ctx.violation("C04", "claims-sound", "accepted-but-policy-violated:" + why0,
					      strf("token violates the configured policy (%s) at now=%lld but jwt_checker_verify "
						   "returned 0; payload=%s exp_on=%d leeway=%lld nbf_on=%d leeway=%lld expect iss=%s "
						   "sub=%s aud=%s",
						   why0.c_str(), (long long)now0, show(payload, 300).c_str(), m.exp_on,
						   (long long)m.exp_leeway, m.nbf_on, (long long)m.nbf_leeway,
						   m.want[0] ? show(m.expect[0]).c_str() : "-", m.want[1] ? show(m.expect[1]).c_str() : "-",
						   m.want[2] ? show(m.expect[2]).c_str() : "-"));
			}
			continue;
		} else
			continue;
		// after every configuration call: claim_get equals the model's expected values
		for (int c = 0; c < 3; c++) {
			const char *g = jwt_checker_claim_get(chk, CL_TYPE[c]);
			bool ok = m.want[c] ? (g && m.expect[c] == g) : g == NULL;
			if (!ok)
				ctx.violation("C04", "claim-get", strf("claim_get:%s", CL_NAME[c]),
					      strf("after step %zu jwt_checker_claim_get(%s) = %s, model expects %s", si, CL_NAME[c],
						   g ? show(g).c_str() : "(null)", m.want[c] ? show(m.expect[c]).c_str() : "(null)"));
		}
	}
	(void)n_cfg;
	(void)n_ver;
	{
		Armed a;
		jwt_checker_free(chk);
	}
	lib_free_key(lk);
	monitor_no_leak(ctx, "C06", "claims-run");
}

extern const Profile PROFILE_CLAIMS = {"claims", claims_gen, claims_exec};
