// Which profiles a property's check runs, how many runs per tier, evidence wording.
#pragma once
#include "common.hpp"

struct CheckDef {
	const char *property;
	std::vector<const char *> profiles; // run i uses profiles[i % n]
	uint64_t runs_quick;
	uint64_t runs_thorough;
	const char *level; // "exploration" | "fault_enumeration"
	const char *rule;
	std::vector<const char *> assumptions;
	std::vector<const char *> real_components;
	std::vector<const char *> stub_components;
};

const CheckDef *find_check(const std::string &property);
const std::vector<CheckDef> &all_checks();

// executes a plan in this process; fills ctx. Returns log hash.
uint64_t exec_plan(const Plan &plan, Ctx &ctx);
void make_plan(const CheckDef &cd, uint64_t verif_seed, uint64_t index, Tier tier, Plan &plan);
