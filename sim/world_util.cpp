#include "world.hpp"
#include <openssl/ec.h>
#include <openssl/bn.h>
#include <openssl/pem.h>
#include <openssl/core_names.h>
#include <gnutls/gnutls.h>
#include <gnutls/abstract.h>
#include <openssl/err.h>

// ================================================================ providers
const char *prov_name(int p)
{
	return p == PROV_GNUTLS ? "gnutls" : "openssl";
}

void set_provider(int p)
{
	jwt_set_crypto_ops_t(p == PROV_GNUTLS ? JWT_CRYPTO_OPS_GNUTLS : JWT_CRYPTO_OPS_OPENSSL);
}

static int g_gnutls_ed448 = -1;

static bool gnutls_can_import(EVP_PKEY *pk)
{
	BIO *b = BIO_new(BIO_s_mem());
	PEM_write_bio_PrivateKey(b, pk, NULL, NULL, 0, NULL, NULL);
	char *p = NULL;
	long n = BIO_get_mem_data(b, &p);
	gnutls_datum_t d = {(unsigned char *)p, (unsigned)n};
	gnutls_privkey_t k;
	bool ok = false;
	if (gnutls_privkey_init(&k) == 0) {
		ok = gnutls_privkey_import_x509_raw(k, &d, GNUTLS_X509_FMT_PEM, NULL, 0) == 0;
		gnutls_privkey_deinit(k);
	}
	BIO_free(b);
	return ok;
}

// Called once from main() before any run (it draws entropy, which must never happen lazily
// in the middle of a step: that made a run's signatures depend on the worker's history).
void provider_probe()
{
	if (g_gnutls_ed448 >= 0)
		return;
	sim_entropy_point(0x6e7);
	EVP_PKEY *pk = EVP_PKEY_Q_keygen(NULL, NULL, "ED448");
	g_gnutls_ed448 = pk && gnutls_can_import(pk) ? 1 : 0;
	EVP_PKEY_free(pk);
}

bool provider_supports(int prov, const AlgInfo &a, const KeyTruth &k)
{
	if (prov != PROV_GNUTLS)
		return true;
	if (a.id == JWT_ALG_ES256K)
		return false; // libjwt's GnuTLS path documents ES256K as unsupported
	if (k.kty == K_EC && k.crv == "secp256k1")
		return false;
	if (k.kty == K_OKP && k.crv == "Ed448") {
		if (g_gnutls_ed448 < 0)
			provider_probe();
		return g_gnutls_ed448 == 1;
	}
	return true;
}

bool admissible(bool has_key, int key_alg, int explicit_alg)
{
	if (!has_key)
		return explicit_alg == JWT_ALG_NONE;
	if (key_alg == JWT_ALG_NONE)
		return explicit_alg != JWT_ALG_NONE;
	return explicit_alg == JWT_ALG_NONE || explicit_alg == key_alg;
}

int pinned_alg(bool has_key, int key_alg, int explicit_alg)
{
	if (!has_key)
		return -1;
	int p = explicit_alg != JWT_ALG_NONE ? explicit_alg : key_alg;
	if (p <= JWT_ALG_NONE || p >= JWT_ALG_INVAL)
		return -1;
	return p;
}

// ================================================================ JSON generator
std::string gen_unicode_string(Rng &r, size_t max_len)
{
	std::string s;
	size_t n = (size_t)r.below(max_len + 1);
	while (s.size() < n) {
		switch (r.below(10)) {
		case 0: { // 2-byte
			unsigned cp = 0x80 + (unsigned)r.below(0x780);
			s.push_back((char)(0xC0 | (cp >> 6)));
			s.push_back((char)(0x80 | (cp & 0x3F)));
			break;
		}
		case 1: { // 3-byte, not a surrogate
			unsigned cp = 0x800 + (unsigned)r.below(0xF800);
			if (cp >= 0xD800 && cp <= 0xDFFF)
				cp = 0x20AC;
			s.push_back((char)(0xE0 | (cp >> 12)));
			s.push_back((char)(0x80 | ((cp >> 6) & 0x3F)));
			s.push_back((char)(0x80 | (cp & 0x3F)));
			break;
		}
		case 2: { // astral
			unsigned cp = 0x10000 + (unsigned)r.below(0x100000);
			s.push_back((char)(0xF0 | (cp >> 18)));
			s.push_back((char)(0x80 | ((cp >> 12) & 0x3F)));
			s.push_back((char)(0x80 | ((cp >> 6) & 0x3F)));
			s.push_back((char)(0x80 | (cp & 0x3F)));
			break;
		}
		case 3:
			s.push_back("\"\\/\b\f\n\r\t\x01\x1f\x7f"[r.below(11)]);
			break;
		default:
			s.push_back((char)(0x20 + r.below(0x5f)));
		}
	}
	return s;
}

json_t *gen_json_value(Rng &r, int depth)
{
	switch (r.below(depth > 0 ? 10 : 7)) {
	case 0: {
		static const int64_t big[] = {0, 1, -1, INT64_MAX, INT64_MIN, 2147483648LL, -2147483649LL, 1LL << 53, (1LL << 53) + 1};
		return json_integer(r.chance(1, 2) ? r.pick(big) : (int64_t)r.next() >> r.below(64));
	}
	case 1:
		return json_integer(r.range(-1000, 1000));
	case 2: {
		static const double reals[] = {0.5, -1.25, 1e10, 1.7976931348623157e308, 5e-324, 3.141592653589793, -0.0, 1e-7, 123456789.125};
		return json_real(r.pick(reals));
	}
	case 3:
		return json_boolean(r.below(2));
	case 4:
		return json_null();
	case 5: {
		std::string s = gen_unicode_string(r, r.chance(1, 20) ? 4096 : 24);
		return json_string(s.c_str());
	}
	case 6:
		return r.chance(1, 2) ? json_object() : json_array();
	case 7:
	case 8:
		return gen_json_object(r, depth - 1, 4);
	default: {
		json_t *a = json_array();
		int n = (int)r.below(5);
		for (int i = 0; i < n; i++)
			json_array_append_new(a, gen_json_value(r, depth - 1));
		return a;
	}
	}
}

json_t *gen_json_object(Rng &r, int depth, int max_members)
{
	json_t *o = json_object();
	int n = (int)r.below((uint64_t)max_members + 1);
	for (int i = 0; i < n; i++) {
		std::string k;
		if (r.chance(1, 6))
			k = gen_unicode_string(r, 8);
		if (k.empty())
			k = strf("k%llu", (unsigned long long)r.below(12));
		json_object_set_new(o, k.c_str(), gen_json_value(r, depth));
	}
	return o;
}

// ================================================================ mutations
static const char B64CH[] = "ABCDEFGHIJKLMNOPQRSTUVWXYZabcdefghijklmnopqrstuvwxyz0123456789-_";

static std::vector<std::string> split_dots(const std::string &t)
{
	std::vector<std::string> v;
	size_t s = 0;
	while (true) {
		size_t e = t.find('.', s);
		if (e == std::string::npos) {
			v.push_back(t.substr(s));
			break;
		}
		v.push_back(t.substr(s, e - s));
		s = e + 1;
	}
	return v;
}

static std::string join_dots(const std::vector<std::string> &v)
{
	std::string r;
	for (size_t i = 0; i < v.size(); i++) {
		if (i)
			r += ".";
		r += v[i];
	}
	return r;
}

static const char *ALG_VARIANTS[] = {
	"none",	 "HS256", "HS384", "HS512",  "RS256", "RS384", "RS512", "ES256", "ES384", "ES512",  "PS256",
	"PS384", "PS512", "ES256K", "EdDSA", "None",  "NONE",  "nOnE",  "hs256", "Hs256", "HS256 ", " HS256",
	"rs256", "es256", "eddsa", "EDDSA",  "EdDsa", "es256k", "HS257", "",     "RS",    "HS2566", "HS25",  "ps256",
	"ES256k", "none ", "nonE",  "HS256\tx"};
static const int N_ALG_VARIANTS = (int)ARRAY_LEN(ALG_VARIANTS);
// beyond the table: a known name followed by 256 or 512 more characters (a length difference an 8-bit
// accumulator loses), and names with printf conversions (the name ends up in error messages)
static const int N_ALG_VARIANTS_EXT = N_ALG_VARIANTS + 30 + 8;
static std::string alg_variant(uint64_t sel)
{
	sel %= (uint64_t)N_ALG_VARIANTS_EXT;
	if (sel < (uint64_t)N_ALG_VARIANTS)
		return ALG_VARIANTS[sel];
	sel -= (uint64_t)N_ALG_VARIANTS;
	if (sel < 30)
		return std::string(ALG_VARIANTS[sel % 15]) + std::string(256 * (1 + sel / 15), sel % 2 ? 'x' : ' ');
	static const char *fmt[] = {"%s%s%s%s%n", "HS256%n", "none%s", "%999999d%n"};
	if (sel - 30 < 4)
		return fmt[sel - 30];
	// a known name, an escaped NUL (\u0000 in the JSON text), more characters: a C string reader sees the known name
	static const char *nul[] = {"none", "HS256", "RS256", "ES256"};
	return std::string(nul[sel - 34]) + std::string(1, '\0') + "HS256";
}

static json_t *decode_json_seg(const std::string &seg)
{
	std::string b;
	if (!b64_decode_lenient(seg, b) || b.empty())
		return NULL;
	return json_loadb(b.data(), b.size(), JSON_DECODE_ANY, NULL);
}

static std::string encode_json_seg(json_t *j, bool spaced)
{
	char *s = json_dumps(j, (spaced ? JSON_INDENT(1) : JSON_COMPACT) | JSON_ENCODE_ANY | JSON_SORT_KEYS);
	std::string t = s ? s : "{}";
	sim_harness_free(s);
	return b64url_encode(t);
}

std::string apply_mutation(const Step &m, std::string &tok, MutCtx &mc, bool &destroys, bool &encoding_level)
{
	std::vector<std::string> parts = split_dots(tok);
	size_t np = parts.size();
	size_t seg = (size_t)m.I("seg") % (np ? np : 1);
	std::string &sg = parts[seg];
	const std::string &op = m.op;
	std::string desc = op;
	auto pos_in = [&](const std::string &s) -> size_t { return s.empty() ? 0 : (size_t)((uint64_t)m.I("pos") % s.size()); };

	if (op == "flip") {
		if (!sg.empty()) {
			size_t p = pos_in(sg);
			sg[p] = (char)(sg[p] ^ (1 << (m.I("bit") & 7)));
			if (sg[p] == 0)
				sg[p] = 'A';
			destroys = true;
			desc += strf("(seg%zu@%zu)", seg, p);
		}
	} else if (op == "subst") {
		if (!sg.empty()) {
			size_t p = pos_in(sg);
			char c = m.has("raw") ? (char)(m.I("val") & 0xff) : B64CH[(uint64_t)m.I("val") % 64];
			if (c == 0)
				c = '!';
			if (sg[p] == c)
				c = c == 'A' ? 'B' : 'A';
			sg[p] = c;
			destroys = true;
			desc += strf("(seg%zu@%zu)", seg, p);
		}
	} else if (op == "ins") {
		size_t p = sg.empty() ? 0 : (size_t)((uint64_t)m.I("pos") % (sg.size() + 1));
		char c = m.has("raw") ? (char)(m.I("val") & 0xff) : B64CH[(uint64_t)m.I("val") % 64];
		if (c == 0)
			c = '!';
		sg.insert(sg.begin() + (long)p, c);
		destroys = true;
	} else if (op == "del") {
		if (!sg.empty()) {
			sg.erase(pos_in(sg), 1);
			destroys = true;
		}
	} else if (op == "trunc") {
		std::string t = join_dots(parts);
		size_t n = 1 + (size_t)((uint64_t)m.I("n") % (t.size() ? t.size() : 1));
		if (n > t.size())
			n = t.size();
		tok = m.I("front") ? t.substr(n) : t.substr(0, t.size() - n);
		destroys = true;
		return desc + strf("(%zu)", n);
	} else if (op == "extend") {
		// lengths around powers of two matter (a length compared modulo 256 passes +256, +512...)
		static const size_t BIG[] = {127, 128, 129, 255, 256, 257, 511, 512, 513, 768, 1024, 4096, 65536};
		size_t n = m.I("big") ? BIG[((uint64_t)m.I("big") - 1) % ARRAY_LEN(BIG)] : 1 + (size_t)((uint64_t)m.I("n") % 96);
		Rng r(mix64(0xe87, (uint64_t)m.I("seed")));
		std::string extra;
		for (size_t i = 0; i < n; i++)
			extra.push_back(B64CH[r.below(64)]);
		if (m.I("front"))
			sg = extra + sg;
		else
			sg += extra;
		destroys = true;
	} else if (op == "dots") {
		int k = (int)m.I("kind") % 4;
		std::string t = join_dots(parts);
		if (k == 0)
			t += ".";
		else if (k == 1)
			t += ".AAAA";
		else if (k == 2)
			t = "." + t;
		else if (!t.empty())
			t.insert(pos_in(t), 1, '.');
		tok = t;
		destroys = true;
		return desc + strf("(%d)", k);
	} else if (op == "pad") {
		sg += std::string(1 + (size_t)((uint64_t)m.I("n") % 3), '=');
		encoding_level = true;
	} else if (op == "alpha") {
		for (auto &c : sg) {
			if (c == '-')
				c = '+';
			else if (c == '_')
				c = '/';
		}
		encoding_level = true;
	} else if (op == "trail") {
		// change the unused trailing bits of the last character (length 2 or 3 mod 4)
		size_t r = sg.size() % 4;
		if ((r == 2 || r == 3) && !sg.empty()) {
			const char *p = strchr(B64CH, sg.back());
			if (p) {
				int v = (int)(p - B64CH);
				int unused = r == 2 ? 4 : 2;
				int add = 1 + (int)((uint64_t)m.I("val") % ((1u << unused) - 1));
				v = (v & ~((1 << unused) - 1)) | (((v & ((1 << unused) - 1)) + add) & ((1 << unused) - 1));
				sg.back() = B64CH[v];
			}
		}
		encoding_level = true;
	} else if (op == "eqtail") {
		Rng r(mix64(0xe91, (uint64_t)m.I("seed")));
		sg += "=";
		size_t n = (size_t)r.below(12);
		for (size_t i = 0; i < n; i++)
			sg.push_back(B64CH[r.below(64)]);
		encoding_level = true;
	} else if (op == "splice") {
		if (mc.pool && !mc.pool->empty() && np >= 3) {
			const std::string &other = (*mc.pool)[(uint64_t)m.I("from") % mc.pool->size()];
			std::vector<std::string> op2 = split_dots(other);
			size_t part = (size_t)m.I("part") % 3;
			if (op2.size() >= 3 && op2[part] != parts[part]) {
				parts[part] = op2[part];
				destroys = true;
			}
			desc += strf("(part%zu)", part);
		}
	} else if (op == "hdr") {
		int kind = (int)m.I("kind") % 8;
		json_t *h = decode_json_seg(parts[0]);
		if (!h || !json_is_object(h)) {
			if (h)
				json_decref(h);
			h = json_object();
		}
		std::string algv = alg_variant((uint64_t)m.I("alg"));
		switch (kind) {
		case 0:
			json_object_set_new(h, "alg", json_stringn(algv.data(), algv.size()));
			desc += "(alg=" + show(algv, 24) + ")";
			break;
		case 1:
			json_object_del(h, "alg");
			desc += "(no-alg)";
			break;
		case 2: {
			static const char *ns[] = {"5", "null", "[\"HS256\"]", "true", "{\"alg\":\"HS256\"}", "1.5"};
			json_t *v = json_loads(ns[(uint64_t)m.I("alg") % 6], JSON_DECODE_ANY, NULL);
			json_object_set_new(h, "alg", v);
			desc += "(alg-nonstring)";
			break;
		}
		case 3:
			json_object_set_new(h, "typ", json_string(m.I("alg") % 2 ? "JWS" : "at+jwt"));
			break;
		case 4:
			json_object_set_new(h, "kid", json_string("attacker-kid"));
			break;
		case 5:
			break; // re-encode with whitespace below
		case 6: {
			json_t *a = json_array();
			json_array_append(a, h);
			json_decref(h);
			h = a;
			break;
		}
		case 7: {
			// a registered JOSE header parameter a library might special-case (RFC 7515 4.1, RFC 7797)
			static const char *names[] = {"crit", "jku", "jwk", "x5u", "x5c", "x5t", "x5t#S256", "cty", "zip", "b64", "enc", "epk", "apu", "nonce", "iss"};
			static const char *vals[] = {"[\"exp\"]", "\"https://attacker.example/jwks.json\"", "{\"kty\":\"oct\",\"k\":\"AAAA\"}", "true", "false", "null", "\"DEF\"", "[]", "1"};
			const char *n = names[(uint64_t)m.I("alg") % ARRAY_LEN(names)];
			json_t *v = json_loads(vals[(uint64_t)m.I("pos") % ARRAY_LEN(vals)], JSON_DECODE_ANY, NULL);
			json_object_set_new(h, n, v);
			desc += std::string("(+") + n + ")";
			break;
		}
		}
		parts[0] = encode_json_seg(h, kind == 5);
		json_decref(h);
		destroys = true;
	} else if (op == "pay") {
		int kind = (int)m.I("kind") % 5;
		if (np >= 2) {
			json_t *p = decode_json_seg(parts[1]);
			if (!p || !json_is_object(p)) {
				if (p)
					json_decref(p);
				p = json_object();
			}
			switch (kind) {
			case 0:
				json_object_set_new(p, "admin", json_true());
				break;
			case 1:
				json_object_set_new(p, "sub", json_string("someone-else"));
				break;
			case 2:
				break;
			case 3: {
				json_decref(p);
				p = json_loads(m.I("pos") % 2 ? "[1,2]" : "7", JSON_DECODE_ANY, NULL);
				break;
			}
			case 4:
				break;
			}
			if (kind == 4)
				parts[1] = b64url_encode("{\"a\":1,}");
			else
				parts[1] = encode_json_seg(p, kind == 2);
			json_decref(p);
			destroys = true;
		}
	} else if (op == "resign") {
		if (np >= 2 && mc.resign) {
			std::string algv = m.has("alg") ? ALG_VARIANTS[(uint64_t)m.I("alg") % 15] : "";
			if (((m.I("signer") % 9) + 9) % 9 == 8 && !mc.pin_name.empty())
				algv = mc.pin_name; // labelled with the verifier's pin, signed as the key's own family signs
			if (!algv.empty()) {
				json_t *h = decode_json_seg(parts[0]);
				if (!h || !json_is_object(h)) {
					if (h)
						json_decref(h);
					h = json_object();
				}
				json_object_set_new(h, "alg", json_string(algv.c_str()));
				parts[0] = encode_json_seg(h, false);
				json_decref(h);
			} else {
				json_t *h = decode_json_seg(parts[0]);
				json_t *a = h ? json_object_get(h, "alg") : NULL;
				if (a && json_is_string(a))
					algv = json_string_value(a);
				if (h)
					json_decref(h);
			}
			std::string sig;
			std::string si = parts[0] + "." + parts[1];
			if (mc.resign(algv, (int)m.I("signer"), si, sig)) {
				parts.resize(3);
				parts[2] = b64url_encode(sig);
			}
			destroys = true;
			desc += strf("(alg=%s,signer=%lld)", algv.c_str(), (long long)m.I("signer"));
		}
	} else if (op == "none") {
		int v = (int)m.I("variant") % 11;
		static const std::string names[] = {"none", "None", "NONE", "none", "nOnE", "none", "none" + std::string(256, 'x'), "none" + std::string(512, ' '),
						     "none%s%n", "none" + std::string(65536, 'e'), std::string("none") + std::string(1, '\0') + "HS256"};
		json_t *h = decode_json_seg(parts[0]);
		if (!h || !json_is_object(h)) {
			if (h)
				json_decref(h);
			h = json_object();
		}
		json_object_set_new(h, "alg", json_stringn(names[v].data(), names[v].size()));
		if (v == 5)
			json_object_del(h, "typ");
		parts[0] = encode_json_seg(h, false);
		json_decref(h);
		parts.resize(3);
		if (v != 3)
			parts[2].clear();
		destroys = true;
		desc += strf("(%s%s)", v >= 6 ? strf("none+%zu", names[v].size() - 4).c_str() : names[v].c_str(), v == 3 ? ",sig-kept" : "");
	} else if (op == "stripsig") {
		parts.resize(3);
		parts[2].clear();
		destroys = true;
	} else if (op == "sigfill") {
		// a signature of exactly the delivered length whose octets are extreme values: the longest encodings a
		// provider may have to build from it (DER integers with a leading zero octet, values above the group order)
		if (np >= 3) {
			std::string sig;
			if (b64_decode_lenient(parts[2], sig) && !sig.empty()) {
				size_t w = sig.size() / 2;
				switch ((int)m.I("kind") % 6) {
				case 0:
					sig.assign(sig.size(), (char)0xff);
					break;
				case 1:
					sig.assign(sig.size(), (char)0x80);
					break;
				case 2:
					sig.assign(sig.size(), (char)0x00);
					break;
				case 3:
					sig[0] = (char)(sig[0] | 0x80);
					sig[w] = (char)(sig[w] | 0x80);
					break;
				case 4:
					sig.assign(sig.size(), (char)0x00);
					sig[sig.size() - 1] = 1;
					sig[w ? w - 1 : 0] = 1;
					break;
				default:
					sig.assign(sig.size(), (char)0x7f);
				}
				parts[2] = b64url_encode(sig);
				destroys = true;
				desc += strf("(%lld)", (long long)(m.I("kind") % 6));
			}
		}
	} else if (op == "esframe") {
		ERR_set_mark(); // harness use of OpenSSL leaves the thread's error queue as it found it
		if (np >= 3) {
			std::string sig;
			if (b64_decode_lenient(parts[2], sig) && sig.size() >= 8 && sig.size() % 2 == 0) {
				size_t w = sig.size() / 2;
				std::string r = sig.substr(0, w), s = sig.substr(w);
				int kind = (int)m.I("kind") % 5;
				std::string out;
				if (kind == 4) {
					// both halves with the top bit set: the longest DER encoding a signature of this width can have
					out = sig;
					out[0] = (char)(out[0] | 0x80);
					out[w] = (char)(out[w] | 0x80);
					if (m.I("n") % 3 == 0)
						out = std::string(w, (char)0xff) + std::string(w, (char)0xff);
				} else if (kind == 0) {
					size_t extra = (size_t)(m.I("n") % 3 == 0 ? 16 : m.I("n") % 3 == 1 ? 17 : 1);
					if (w == 32 && m.I("n") % 3 == 0)
						extra = 16; // 64 -> 96: another legal ES width
					if (w == 48 && m.I("n") % 3 == 0)
						extra = 18; // 96 -> 132
					out = std::string(extra, '\0') + r + std::string(extra, '\0') + s;
				} else if (kind == 1) {
					ECDSA_SIG *es = ECDSA_SIG_new();
					ECDSA_SIG_set0(es, BN_bin2bn((const unsigned char *)r.data(), (int)w, NULL),
						       BN_bin2bn((const unsigned char *)s.data(), (int)w, NULL));
					unsigned char *p = NULL;
					int n = i2d_ECDSA_SIG(es, &p);
					if (n > 0)
						out.assign((char *)p, (size_t)n);
					OPENSSL_free(p);
					ECDSA_SIG_free(es);
				} else if (kind == 2 && mc.verifier_key && mc.verifier_key->kty == K_EC) {
					BIGNUM *order = NULL;
					EVP_PKEY_get_bn_param(mc.verifier_key->pkey, OSSL_PKEY_PARAM_EC_ORDER, &order);
					BIGNUM *bs = BN_bin2bn((const unsigned char *)s.data(), (int)w, NULL);
					if (order && bs && BN_cmp(bs, order) < 0 && !BN_is_zero(bs)) {
						BN_sub(bs, order, bs);
						std::string ns((size_t)BN_num_bytes(bs), '\0');
						if (!ns.empty())
							BN_bn2bin(bs, (unsigned char *)&ns[0]);
						if (ns.size() <= w)
							out = r + std::string(w - ns.size(), '\0') + ns;
					}
					BN_free(order);
					BN_free(bs);
				} else {
					size_t i = 0, j = 0;
					while (i + 1 < r.size() && r[i] == 0)
						i++;
					while (j + 1 < s.size() && s[j] == 0)
						j++;
					out = r.substr(i) + s.substr(j);
				}
				if (!out.empty())
					parts[2] = b64url_encode(out);
				desc += strf("(%d)", kind);
			}
			encoding_level = true;
		}
		ERR_pop_to_mark();
	}
	tok = join_dots(parts);
	return desc;
}

Step gen_mutation(Rng &r, const std::string &bias)
{
	// weights per bias; signature-focused for C01, algorithm-focused for C02, shape-focused for C03/C06
	struct W {
		const char *op;
		int c01, c02, c03, c06, c12;
	};
	static const W table[] = {
		{"flip", 8, 1, 1, 6, 6},   {"subst", 4, 1, 1, 6, 3},  {"ins", 3, 1, 1, 5, 2},	   {"del", 3, 1, 1, 5, 2},
		{"trunc", 4, 1, 2, 6, 3},  {"extend", 4, 1, 1, 4, 2}, {"dots", 2, 1, 4, 5, 1},	   {"pad", 2, 1, 1, 3, 1},
		{"alpha", 2, 0, 0, 2, 1},  {"trail", 3, 0, 0, 2, 1},  {"eqtail", 2, 0, 1, 3, 1},   {"splice", 6, 2, 1, 2, 3},
		{"hdr", 4, 10, 5, 4, 3},   {"pay", 5, 1, 1, 3, 3},    {"resign", 8, 12, 3, 1, 4},  {"none", 3, 5, 10, 2, 2},
		{"stripsig", 2, 2, 8, 2, 1}, {"esframe", 5, 1, 0, 4, 1},  {"sigfill", 4, 1, 0, 9, 2},
	};
	int total = 0;
	auto wt = [&](const W &w) { return bias == "C02" ? w.c02 : bias == "C03" ? w.c03 : bias == "C06" ? w.c06 : bias == "C12" ? w.c12 : w.c01; };
	for (auto &w : table)
		total += wt(w);
	int pick = (int)r.below((uint64_t)total);
	const char *op = table[0].op;
	for (auto &w : table) {
		pick -= wt(w);
		if (pick < 0) {
			op = w.op;
			break;
		}
	}
	Step m(op);
	std::string o = op;
	m.set("seg", r.chance(1, 2) ? 2 : r.range(0, 2));
	if (o == "flip") {
		m.set("pos", (int64_t)r.below(100000));
		m.set("bit", r.range(0, 5));
	} else if (o == "subst" || o == "ins") {
		m.set("pos", (int64_t)r.below(100000));
		m.set("val", r.range(0, 255));
		if (r.chance(1, 4))
			m.set("raw", 1);
	} else if (o == "del")
		m.set("pos", (int64_t)r.below(100000));
	else if (o == "trunc") {
		m.set("n", r.chance(3, 4) ? r.range(0, 6) : r.range(0, 100000));
		m.set("front", r.chance(1, 5) ? 1 : 0);
	} else if (o == "extend") {
		m.set("n", r.range(0, 95));
		if (r.chance(1, 3))
			m.set("big", r.range(1, 13));
		m.set("seed", (int64_t)r.below(1 << 30));
		m.set("front", r.chance(1, 4) ? 1 : 0);
	} else if (o == "dots") {
		m.set("kind", r.range(0, 3));
		m.set("pos", (int64_t)r.below(100000));
	} else if (o == "pad")
		m.set("n", r.range(0, 2));
	else if (o == "trail")
		m.set("val", r.range(0, 14));
	else if (o == "eqtail")
		m.set("seed", (int64_t)r.below(1 << 30));
	else if (o == "splice") {
		m.set("part", r.range(0, 2));
		m.set("from", (int64_t)r.below(64));
	} else if (o == "hdr") {
		m.set("kind", bias == "C02" ? (int64_t)r.pick(std::vector<int>{0, 0, 0, 0, 1, 2, 2, 6, 7}) : r.range(0, 7));
		m.set("alg", (int64_t)(r.chance(1, 10) ? N_ALG_VARIANTS + r.below(38) : r.below((uint64_t)N_ALG_VARIANTS)));
		m.set("pos", (int64_t)r.below(100000));
	} else if (o == "pay") {
		m.set("kind", r.range(0, 4));
		m.set("pos", r.range(0, 1));
	} else if (o == "resign") {
		if (r.chance(3, 4))
			m.set("alg", r.range(1, 14));
		m.set("signer", (bias == "C02" || bias == "C09") && r.chance(1, 4) ? 8 : r.range(0, 8));
		m.set("other", (int64_t)r.below(16));
	} else if (o == "none")
		m.set("variant", r.chance(1, 4) ? r.range(6, 10) : r.range(0, 5));
	else if (o == "sigfill")
		m.set("kind", r.range(0, 5));
	else if (o == "esframe") {
		m.set("kind", r.range(0, 4));
		m.set("n", r.range(0, 2));
	}
	return m;
}

// ================================================================ garbage
const int N_GARBAGE_KINDS = 13;

std::string gen_garbage(int kind, uint64_t seed, size_t len, const std::string &base)
{
	Rng r(mix64(0x6a5b, seed));
	std::string s;
	kind = ((kind % N_GARBAGE_KINDS) + N_GARBAGE_KINDS) % N_GARBAGE_KINDS;
	switch (kind) {
	case 0:
		for (size_t i = 0; i < len; i++)
			s.push_back((char)(1 + r.below(255)));
		break;
	case 1: {
		for (size_t i = 0; i < len; i++)
			s.push_back(B64CH[r.below(64)]);
		for (int d = 0; d < 2 && !s.empty(); d++)
			s[r.below(s.size())] = '.';
		break;
	}
	case 2: {
		static const char *shapes[] = {"a.b.c", "..", ".", "...", "a..", ".b.", "..c", "a.b", "a.b.", "", " ", "e30.e30.", "e30.e30", "e30..", ".e30."};
		s = r.pick(shapes);
		break;
	}
	case 3: {
		s = b64url_encode("{\"alg\":\"" + std::string(ALG_VARIANTS[r.below(15)]) + "\"}") + ".";
		for (size_t i = 0; i < len; i++)
			s.push_back(B64CH[r.below(64)]);
		s += ".";
		size_t sl = (size_t)r.below(90);
		for (size_t i = 0; i < sl; i++)
			s.push_back(B64CH[r.below(64)]);
		break;
	}
	case 4: {
		size_t depth = len < 4 ? 4 : len;
		std::string j(depth, '[');
		j += std::string(depth, ']');
		s = b64url_encode(r.chance(1, 2) ? j : "{\"alg\":\"none\",\"x\":" + j + "}") + "." + b64url_encode(j) + ".";
		break;
	}
	case 5:
		s = base; // near-valid: caller applies mutations
		break;
	case 6: {
		s = std::string(len, 'A');
		if (len > 10) {
			s[len / 3] = '.';
			s[2 * len / 3] = '.';
		}
		break;
	}
	case 7:
		s = std::string(len ? len : 1, '.');
		break;
	case 8:
		s = b64url_encode("{\"alg\":\"HS256\"}") + "." + b64url_encode(r.chance(1, 2) ? "not json" : "{\"a\":") + "." + "AAAA";
		break;
	case 9: {
		std::string h = "{\"alg\":\"none\"}";
		h.push_back('\0');
		h += "junk";
		s = b64url_encode(h) + "." + b64url_encode("{}") + ".";
		break;
	}
	case 10:
		s = b64url_encode("{\"alg\":\"none\",\"n\":1" + std::string(len % 400, '0') + "}") + "." + b64url_encode("{\"exp\":1e999}") + ".";
		break;
	case 11:
		s = b64url_encode("{\"alg\":\"none\",\"alg\":\"HS256\"}") + "." + b64url_encode("{\"a\":1,\"a\":2}") + ".";
		break;
	default: {
		s = base;
		for (int i = 0; i < 4 && !s.empty(); i++)
			s[r.below(s.size())] = "\t\n\r \x7f\x80\xff%"[r.below(8)];
	}
	}
	// a C string: strip embedded NULs
	for (auto &c : s)
		if (c == 0)
			c = 1;
	return s;
}

// ================================================================ callback
static std::string get_whole_json(jwt_t *jwt, bool header, int &rc)
{
	jwt_value_t jv;
	jv_get(&jv, JWT_VALUE_JSON, NULL);
	rc = header ? jwt_header_get(jwt, &jv) : jwt_claim_get(jwt, &jv);
	std::string r;
	if (rc == JWT_VALUE_ERR_NONE && jv.json_val) {
		r = jv.json_val;
		sim_harness_free(jv.json_val);
	}
	return r;
}

extern "C" int world_cb(jwt_t *jwt, jwt_config_t *config)
{
	CbCtx *c = (CbCtx *)config->ctx;
	if (!c)
		return 0;
	c->calls++;
	if (c->capture) {
		c->hdr_json = get_whole_json(jwt, true, c->hdr_rc);
		c->claims_json = get_whole_json(jwt, false, c->claims_rc);
		// the typed getters must deliver the same values as the whole-object read
		c->typed_mismatch.clear();
		for (int h = 0; h < 2; h++) {
			json_t *o = json_loads((h ? c->hdr_json : c->claims_json).c_str(), 0, NULL);
			const char *k;
			json_t *v;
			if (o && json_is_object(o))
				json_object_foreach(o, k, v)
				{
					if (!*k)
						continue;
					jwt_value_t jv;
					if (json_is_integer(v)) {
						jv_get(&jv, JWT_VALUE_INT, k);
						int rc = h ? jwt_header_get(jwt, &jv) : jwt_claim_get(jwt, &jv);
						c->typed_reads++;
						if (rc != JWT_VALUE_ERR_NONE || jv.int_val != (long)json_integer_value(v))
							c->typed_mismatch.push_back(strf("INT %s.%s: typed get rc=%d value %ld, JSON says %lld", h ? "header" : "claims", k, rc, jv.int_val,
											 (long long)json_integer_value(v)));
					} else if (json_is_string(v)) {
						jv_get(&jv, JWT_VALUE_STR, k);
						int rc = h ? jwt_header_get(jwt, &jv) : jwt_claim_get(jwt, &jv);
						c->typed_reads++;
						if (rc != JWT_VALUE_ERR_NONE || !jv.str_val || strcmp(jv.str_val, json_string_value(v)))
							c->typed_mismatch.push_back(strf("STR %s.%s: typed get rc=%d differs from the JSON value", h ? "header" : "claims", k, rc));
					} else if (json_is_boolean(v)) {
						jv_get(&jv, JWT_VALUE_BOOL, k);
						int rc = h ? jwt_header_get(jwt, &jv) : jwt_claim_get(jwt, &jv);
						c->typed_reads++;
						if (rc != JWT_VALUE_ERR_NONE || (jv.bool_val != 0) != json_is_true(v))
							c->typed_mismatch.push_back(strf("BOOL %s.%s: typed get rc=%d value %d", h ? "header" : "claims", k, rc, jv.bool_val));
					}
				}
			if (o)
				json_decref(o);
		}
	}
	if (c->passive)
		return 0;
	switch (c->mode) {
	case 1:
		config->key = c->key;
		config->alg = (jwt_alg_t)c->alg;
		break;
	case 2:
		config->key = c->key;
		break;
	case 3:
		config->alg = (jwt_alg_t)c->alg;
		break;
	case 5:
		return 1;
	}
	return 0;
}
