#include "common.hpp"
#include "seams.hpp"

std::string strf(const char *fmt, ...)
{
	char buf[4096];
	va_list ap;
	va_start(ap, fmt);
	int n = vsnprintf(buf, sizeof buf, fmt, ap);
	va_end(ap);
	if (n < 0)
		return "";
	if ((size_t)n < sizeof buf)
		return std::string(buf, n);
	std::string r(n + 1, '\0');
	va_start(ap, fmt);
	vsnprintf(&r[0], r.size(), fmt, ap);
	va_end(ap);
	r.resize(n);
	return r;
}

std::string hex_encode(const std::string &b)
{
	static const char *d = "0123456789abcdef";
	std::string r;
	r.reserve(b.size() * 2);
	for (unsigned char c : b) {
		r.push_back(d[c >> 4]);
		r.push_back(d[c & 15]);
	}
	return r;
}

static int hv(char c)
{
	if (c >= '0' && c <= '9')
		return c - '0';
	if (c >= 'a' && c <= 'f')
		return c - 'a' + 10;
	if (c >= 'A' && c <= 'F')
		return c - 'A' + 10;
	return -1;
}

std::string hex_decode(const std::string &h)
{
	std::string r;
	for (size_t i = 0; i + 1 < h.size(); i += 2) {
		int a = hv(h[i]), b = hv(h[i + 1]);
		if (a < 0 || b < 0)
			break;
		r.push_back((char)(a * 16 + b));
	}
	return r;
}

bool printable(const std::string &s)
{
	for (unsigned char c : s)
		if (c < 0x20 || c > 0x7e)
			return false;
	return true;
}

std::string show(const std::string &s, size_t cap)
{
	std::string r;
	for (size_t i = 0; i < s.size() && i < cap; i++) {
		unsigned char c = s[i];
		if (c >= 0x20 && c <= 0x7e && c != '\\')
			r.push_back(c);
		else
			r += strf("\\x%02x", c);
	}
	if (s.size() > cap)
		r += strf("...(%zu)", s.size());
	return r;
}

// ---------------------------------------------------------------- plan <-> JSON
// The harness uses jansson too; all of this runs with fault injection disarmed.

static json_t *val_to_json(const Val &v)
{
	if (!v.is_str)
		return json_integer(v.i);
	if (printable(v.s))
		return json_string(v.s.c_str());
	json_t *o = json_object();
	json_object_set_new(o, "hex", json_string(hex_encode(v.s).c_str()));
	return o;
}

static bool val_from_json(json_t *j, Val &v)
{
	if (json_is_integer(j)) {
		v = Val((int64_t)json_integer_value(j));
		return true;
	}
	if (json_is_string(j)) {
		v = Val(std::string(json_string_value(j), json_string_length(j)));
		return true;
	}
	if (json_is_object(j)) {
		json_t *h = json_object_get(j, "hex");
		if (json_is_string(h)) {
			v = Val(hex_decode(json_string_value(h)));
			return true;
		}
	}
	return false;
}

static json_t *step_to_json(const Step &s)
{
	json_t *o = json_object();
	json_object_set_new(o, "op", json_string(s.op.c_str()));
	json_object_set_new(o, "uid", json_integer((json_int_t)s.uid));
	for (auto &kv : s.kv)
		json_object_set_new(o, ("." + kv.first).c_str(), val_to_json(kv.second));
	if (!s.sub.empty()) {
		json_t *a = json_array();
		for (auto &x : s.sub)
			json_array_append_new(a, step_to_json(x));
		json_object_set_new(o, "sub", a);
	}
	return o;
}

static bool step_from_json(json_t *o, Step &s)
{
	if (!json_is_object(o))
		return false;
	const char *k;
	json_t *v;
	json_object_foreach(o, k, v)
	{
		if (!strcmp(k, "op") && json_is_string(v))
			s.op = json_string_value(v);
		else if (!strcmp(k, "uid") && json_is_integer(v))
			s.uid = (uint64_t)json_integer_value(v);
		else if (!strcmp(k, "sub") && json_is_array(v)) {
			size_t i;
			json_t *e;
			json_array_foreach(v, i, e)
			{
				Step x;
				if (!step_from_json(e, x))
					return false;
				s.sub.push_back(x);
			}
		} else if (k[0] == '.') {
			Val val;
			if (!val_from_json(v, val))
				return false;
			s.kv[k + 1] = val;
		}
	}
	return !s.op.empty();
}

json_t *plan_to_json(const Plan &p)
{
	json_t *o = json_object();
	json_object_set_new(o, "profile", json_string(p.profile.c_str()));
	json_object_set_new(o, "property", json_string(p.property.c_str()));
	// 64-bit unsigned values are kept as decimal strings (json integers are signed)
	json_object_set_new(o, "seed", json_string(strf("%llu", (unsigned long long)p.seed).c_str()));
	json_object_set_new(o, "rng", json_string(strf("%llu", (unsigned long long)p.rng).c_str()));
	json_t *c = json_object();
	for (auto &kv : p.cfg)
		json_object_set_new(c, kv.first.c_str(), val_to_json(kv.second));
	json_object_set_new(o, "cfg", c);
	json_t *a = json_array();
	for (auto &s : p.steps)
		json_array_append_new(a, step_to_json(s));
	json_object_set_new(o, "steps", a);
	return o;
}

bool plan_from_json(json_t *j, Plan &p)
{
	if (!json_is_object(j))
		return false;
	json_t *v;
	if ((v = json_object_get(j, "profile")) && json_is_string(v))
		p.profile = json_string_value(v);
	if ((v = json_object_get(j, "property")) && json_is_string(v))
		p.property = json_string_value(v);
	if ((v = json_object_get(j, "seed")) && json_is_string(v))
		p.seed = strtoull(json_string_value(v), NULL, 10);
	if ((v = json_object_get(j, "rng")) && json_is_string(v))
		p.rng = strtoull(json_string_value(v), NULL, 10);
	if ((v = json_object_get(j, "cfg")) && json_is_object(v)) {
		const char *k;
		json_t *e;
		json_object_foreach(v, k, e)
		{
			Val val;
			if (!val_from_json(e, val))
				return false;
			p.cfg[k] = val;
		}
	}
	if ((v = json_object_get(j, "steps")) && json_is_array(v)) {
		size_t i;
		json_t *e;
		json_array_foreach(v, i, e)
		{
			Step s;
			if (!step_from_json(e, s))
				return false;
			p.steps.push_back(s);
		}
	}
	return !p.profile.empty();
}

std::string plan_dump(const Plan &p, bool pretty)
{
	json_t *j = plan_to_json(p);
	char *s = json_dumps(j, (pretty ? JSON_INDENT(1) : JSON_COMPACT) | JSON_SORT_KEYS);
	std::string r = s ? s : "";
	sim_harness_free(s);
	json_decref(j);
	return r;
}

static size_t count_steps(const std::vector<Step> &v)
{
	size_t n = 0;
	for (auto &s : v)
		n += 1 + count_steps(s.sub);
	return n;
}

size_t Plan::total_steps() const
{
	return count_steps(steps);
}

std::string step_brief(const Step &s)
{
	std::string r = s.op;
	for (auto &kv : s.kv) {
		r += " ";
		r += kv.first + "=";
		r += kv.second.is_str ? show(kv.second.s, 40) : strf("%lld", (long long)kv.second.i);
	}
	if (!s.sub.empty()) {
		r += " [";
		for (size_t i = 0; i < s.sub.size(); i++) {
			if (i)
				r += "; ";
			r += step_brief(s.sub[i]);
		}
		r += "]";
	}
	return r;
}

// ---------------------------------------------------------------- Ctx
void Ctx::logf(const char *fmt, ...)
{
	char buf[2048];
	va_list ap;
	va_start(ap, fmt);
	int n = vsnprintf(buf, sizeof buf, fmt, ap);
	va_end(ap);
	if (n < 0)
		return;
	if ((size_t)n >= sizeof buf)
		n = sizeof buf - 1;
	log.add(buf, n);
	unsigned char nl = '\n';
	log.add(&nl, 1);
	if (verbose)
		lines.push_back(std::string(buf, n));
}

void Ctx::sig(const std::string &s)
{
	uint64_t h = hash_str(s);
	sigs.push_back(h);
	sigacc ^= h;
}

bool Ctx::violation(const std::string &prop, const std::string &monitor, const std::string &cause,
		    const std::string &detail)
{
	logf("VIOL %s %s %s", prop.c_str(), monitor.c_str(), cause.c_str());
	if (prop != property) {
		count("other_property_observation:" + prop);
		return false;
	}
	if (viol.size() >= 40) {
		count("violations_beyond_cap");
		return true;
	}
	Violation v;
	v.property = prop;
	v.monitor = monitor;
	v.cause = cause;
	v.detail = detail;
	v.step = cur_step;
	viol.push_back(v);
	return true;
}
