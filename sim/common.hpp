// Common infrastructure for jwtsim: PRNG, hashing, plan representation.
#pragma once
#include <cstdint>
#include <cstdio>
#include <cstdlib>
#include <cstring>
#include <cstdarg>
#include <string>
#include <vector>
#include <map>
#include <set>
#include <unordered_set>
#include <functional>
#include <memory>
#include <algorithm>

extern "C" {
#include <jansson.h>
#include <jwt.h>
}

// ---------------------------------------------------------------- PRNG
static inline uint64_t splitmix64(uint64_t &x)
{
	uint64_t z = (x += 0x9e3779b97f4a7c15ULL);
	z = (z ^ (z >> 30)) * 0xbf58476d1ce4e5b9ULL;
	z = (z ^ (z >> 27)) * 0x94d049bb133111ebULL;
	return z ^ (z >> 31);
}

static inline uint64_t mix64(uint64_t a, uint64_t b)
{
	uint64_t x = a ^ (b * 0xd6e8feb86659fd93ULL + 0x2545f4914f6cdd1dULL);
	uint64_t r = splitmix64(x);
	r ^= splitmix64(x);
	return r;
}

struct Rng {
	uint64_t s;
	explicit Rng(uint64_t seed = 1) : s(seed) {}
	uint64_t next() { return splitmix64(s); }
	// uniform in [0, n)
	uint64_t below(uint64_t n) { return n ? next() % n : 0; }
	int64_t range(int64_t lo, int64_t hi) { return lo + (int64_t)below((uint64_t)(hi - lo + 1)); }
	bool chance(unsigned num, unsigned den) { return below(den) < num; }
	Rng fork(uint64_t tag) { return Rng(mix64(next(), tag)); }
	template <class T> const T &pick(const std::vector<T> &v) { return v[below(v.size())]; }
	template <class T, size_t N> const T &pick(const T (&v)[N]) { return v[below(N)]; }
	void bytes(void *out, size_t n)
	{
		unsigned char *p = (unsigned char *)out;
		while (n) {
			uint64_t v = next();
			size_t k = n < 8 ? n : 8;
			memcpy(p, &v, k);
			p += k;
			n -= k;
		}
	}
	std::string bytes(size_t n)
	{
		std::string r(n, '\0');
		bytes(&r[0], n);
		return r;
	}
};

// ---------------------------------------------------------------- hashing (FNV-1a 64)
struct Hasher {
	uint64_t h = 0xcbf29ce484222325ULL;
	void add(const void *p, size_t n)
	{
		const unsigned char *c = (const unsigned char *)p;
		for (size_t i = 0; i < n; i++) {
			h ^= c[i];
			h *= 0x100000001b3ULL;
		}
	}
	void add(const std::string &s)
	{
		add(s.data(), s.size());
		unsigned char z = 0xff;
		add(&z, 1);
	}
	void add(uint64_t v) { add(&v, sizeof v); }
};

static inline uint64_t hash_str(const std::string &s)
{
	Hasher h;
	h.add(s);
	return h.h;
}

std::string strf(const char *fmt, ...) __attribute__((format(printf, 1, 2)));
std::string hex_encode(const std::string &b);
std::string hex_decode(const std::string &h);
bool printable(const std::string &s);
// text safe to print in a log line (escapes non-printables, caps the length)
std::string show(const std::string &s, size_t cap = 96);

// ---------------------------------------------------------------- plan
struct Val {
	bool is_str = false;
	int64_t i = 0;
	std::string s;
	Val() {}
	Val(int64_t v) : is_str(false), i(v) {}
	Val(int v) : is_str(false), i(v) {}
	Val(uint64_t v) : is_str(false), i((int64_t)v) {}
	Val(const std::string &v) : is_str(true), s(v) {}
	Val(const char *v) : is_str(true), s(v) {}
};

struct Step {
	std::string op;
	uint64_t uid = 0; // stable identity: entropy for this step is derived from it
	std::map<std::string, Val> kv;
	std::vector<Step> sub; // attached faults / mutations / callback program

	Step() {}
	explicit Step(const std::string &o) : op(o) {}
	Step &set(const std::string &k, const Val &v)
	{
		kv[k] = v;
		return *this;
	}
	bool has(const std::string &k) const { return kv.count(k) != 0; }
	int64_t I(const std::string &k, int64_t def = 0) const
	{
		auto it = kv.find(k);
		return it == kv.end() || it->second.is_str ? def : it->second.i;
	}
	std::string S(const std::string &k, const std::string &def = "") const
	{
		auto it = kv.find(k);
		return it == kv.end() || !it->second.is_str ? def : it->second.s;
	}
};

struct Plan {
	std::string profile;  // generator/executor name
	std::string property; // property whose monitors are reported
	uint64_t seed = 0;    // run seed (s_i)
	uint64_t rng = 0;     // entropy root for steps
	std::map<std::string, Val> cfg;
	std::vector<Step> steps;
	int64_t C(const std::string &k, int64_t def = 0) const
	{
		auto it = cfg.find(k);
		return it == cfg.end() || it->second.is_str ? def : it->second.i;
	}
	std::string CS(const std::string &k, const std::string &def = "") const
	{
		auto it = cfg.find(k);
		return it == cfg.end() || !it->second.is_str ? def : it->second.s;
	}
	size_t total_steps() const;
};

json_t *plan_to_json(const Plan &p);
bool plan_from_json(json_t *j, Plan &p);
std::string plan_dump(const Plan &p, bool pretty = false);
std::string step_brief(const Step &s);

// ---------------------------------------------------------------- violations, stats, context
struct Violation {
	std::string property;
	std::string monitor;
	std::string cause; // stable cause key
	std::string detail;
	int step = -1;
	std::string key() const { return property + "|" + monitor + "|" + cause; }
};

struct Stats {
	std::map<std::string, uint64_t> counters;
	std::unordered_set<uint64_t> signatures; // distinct state signatures from non-trivial runs
	uint64_t sim_seconds = 0;
	void inc(const std::string &k, uint64_t n = 1) { counters[k] += n; }
};

enum Tier { QUICK = 0, THOROUGH = 1 };

struct Ctx {
	const Plan *plan = nullptr;
	std::string property; // monitors of this property are reported
	Hasher log;
	bool verbose = false;
	bool nontrivial = false;
	Stats *stats = nullptr;
	std::vector<Violation> viol;     // of the reported property
	std::vector<std::string> lines;  // kept only when verbose
	int cur_step = -1;
	uint64_t sigacc = 0;
	std::vector<uint64_t> sigs; // merged into stats by exec_plan when the run is non-trivial

	void logf(const char *fmt, ...) __attribute__((format(printf, 2, 3)));
	// state signature element (cell, event kind, faults, verdict class...)
	void sig(const std::string &s);
	void count(const std::string &k, uint64_t n = 1)
	{
		if (stats)
			stats->inc(k, n);
	}
	// returns true if the violation belongs to the reported property
	bool violation(const std::string &prop, const std::string &monitor, const std::string &cause,
		       const std::string &detail);
	bool failed() const { return !viol.empty(); }
};

// A profile: generator + executor.
struct Profile {
	const char *name;
	void (*gen)(Rng &rng, Plan &plan, Tier tier, uint64_t index);
	void (*exec)(Ctx &ctx);
};

const Profile *find_profile(const std::string &name);

#define ARRAY_LEN(a) (sizeof(a) / sizeof((a)[0]))
