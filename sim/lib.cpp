#include "lib.hpp"

bool lib_load_key(Ctx &ctx, const std::string &jwk, LoadedKey &lk, int64_t fail_at, bool fail_from, bool *fired, bool *tainted)
{
	lk.jwk = jwk;
	{
		uint64_t p0 = g_alloc.fired_in_parse, d0 = g_alloc.fired_in_dump;
		Armed a(fail_at, fail_from);
		lk.set = jwks_create(jwk.c_str());
		if (fired)
			*fired = a.fired() > 0;
		if (tainted)
			*tainted = g_alloc.fired_in_parse > p0 || g_alloc.fired_in_dump > d0;
		if (a.fired())
			ctx.count("fault:alloc_fail_in_key_import", a.fired());
	}
	if (!lk.set)
		return false;
	lk.item = jwks_item_get(lk.set, 0);
	if (!lk.item || jwks_error(lk.set))
		return false;
	if (jwks_item_error(lk.item)) {
		ctx.logf("key load error: %s", jwks_item_error_msg(lk.item));
		return false;
	}
	return true;
}

void lib_free_key(LoadedKey &lk)
{
	if (lk.set) {
		Armed a;
		jwks_free(lk.set);
	}
	lk.set = nullptr;
	lk.item = nullptr;
}

std::string msg_class(const std::string &m)
{
	std::string r;
	bool in_br = false;
	for (char c : m) {
		if (c == '[') {
			in_br = true;
			r += "[]";
			continue;
		}
		if (c == ']') {
			in_br = false;
			continue;
		}
		if (in_br)
			continue;
		if (c >= '0' && c <= '9') {
			if (r.empty() || r.back() != '#')
				r.push_back('#');
			continue;
		}
		r.push_back(c);
	}
	if (r.size() > 60)
		r.resize(60);
	return r;
}

VerifyOut lib_verify(Ctx &ctx, jwt_checker_t *c, const char *token, bool c14, int64_t fail_at, bool fail_from, int64_t fail_at2)
{
	VerifyOut o;
	{
		uint64_t p0 = g_alloc.fired_in_parse, d0 = g_alloc.fired_in_dump;
		Armed a(fail_at, fail_from, fail_at2);
		o.ret = jwt_checker_verify(c, token);
		o.alloc_reqs = a.reqs();
		o.faults_fired = a.fired();
		o.tainted = g_alloc.fired_in_parse > p0 || g_alloc.fired_in_dump > d0;
	}
	o.err = jwt_checker_error(c);
	const char *m = jwt_checker_error_msg(c);
	o.msg = m ? m : "";
	ctx.count("lib:verify_calls");
	if (o.faults_fired)
		ctx.count("fault:alloc_fail_in_verify", o.faults_fired);
	if (c14 && c) {
		// (asserted under injected allocation failures too: flag and message live in the checker itself)
		// C14: verify returns non-zero exactly when the flag is set afterwards, and then the
		// message is non-empty; after a success the flag is clear and the message empty.
		std::string cls = msg_class(o.msg);
		if (o.ret != 0) {
			ctx.count("c14:failure_cause:" + (cls.empty() ? std::string("(empty)") : cls));
			if (!o.err)
				ctx.violation("C14", "verify-flag", "ret-nonzero-flag-clear",
					      strf("jwt_checker_verify returned %d but jwt_checker_error is 0 (msg '%s') token=%s",
						   o.ret, o.msg.c_str(), show(token ? token : "(null)", 200).c_str()));
			else if (o.msg.empty())
				ctx.violation("C14", "verify-msg", "ret-nonzero-msg-empty",
					      strf("jwt_checker_verify returned %d with error flag set but empty message token=%s",
						   o.ret, show(token ? token : "(null)", 200).c_str()));
		} else {
			if (o.err)
				ctx.violation("C14", "verify-flag", "ret-zero-flag-set",
					      strf("jwt_checker_verify returned 0 but error flag is set (msg '%s')", o.msg.c_str()));
			else if (!o.msg.empty())
				ctx.violation("C14", "verify-msg", "ret-zero-msg-nonempty",
					      strf("jwt_checker_verify returned 0 but message is '%s'", o.msg.c_str()));
		}
	}
	return o;
}

GenerateOut lib_generate(Ctx &ctx, jwt_builder_t *b, bool c14, int64_t fail_at, bool fail_from, int64_t fail_at2)
{
	GenerateOut o;
	char *t;
	{
		uint64_t p0 = g_alloc.fired_in_parse, d0 = g_alloc.fired_in_dump;
		Armed a(fail_at, fail_from, fail_at2);
		t = jwt_builder_generate(b);
		o.alloc_reqs = a.reqs();
		o.faults_fired = a.fired();
		o.tainted = g_alloc.fired_in_parse > p0 || g_alloc.fired_in_dump > d0;
	}
	o.ok = t != NULL;
	if (t) {
		o.token = t;
		sim_harness_free(t);
	}
	o.err = jwt_builder_error(b);
	const char *m = jwt_builder_error_msg(b);
	o.msg = m ? m : "";
	ctx.count("lib:generate_calls");
	if (o.faults_fired)
		ctx.count("fault:alloc_fail_in_generate", o.faults_fired);
	if (c14 && b) {
		std::string cls = msg_class(o.msg);
		if (!o.ok) {
			ctx.count("c14:failure_cause:gen:" + (cls.empty() ? std::string("(empty)") : cls));
			if (!o.err)
				ctx.violation("C14", "generate-flag", "null-flag-clear",
					      strf("jwt_builder_generate returned NULL but jwt_builder_error is 0 (msg '%s')",
						   o.msg.c_str()));
			else if (o.msg.empty())
				ctx.violation("C14", "generate-msg", "null-msg-empty",
					      "jwt_builder_generate returned NULL with error flag set but empty message");
		} else if (o.err) {
			ctx.violation("C14", "generate-flag", "token-flag-set",
				      strf("jwt_builder_generate returned a token but error flag is set (msg '%s')",
					   o.msg.c_str()));
		}
	}
	return o;
}

bool ref_make_token(const std::string &header_json, const std::string &payload_json, const KeyTruth *key,
		    const AlgInfo *alg, std::string &token)
{
	std::string si = b64url_encode(header_json) + "." + b64url_encode(payload_json);
	if (!alg || alg->fam == FAM_NONE || !key) {
		token = si + ".";
		return true;
	}
	std::string sig;
	if (!ref_sign(*key, *alg, si, sig))
		return false;
	token = si + "." + b64url_encode(sig);
	return true;
}

void monitor_no_leak(Ctx &ctx, const char *prop, const char *where)
{
	uint64_t n = g_alloc.live_blocks();
	ctx.logf("live blocks at end: %llu", (unsigned long long)n);
	if (n)
		ctx.violation(prop, "leak", where,
			      strf("%llu block(s), %llu byte(s) handed out by the simulator's allocator were never freed "
				   "after every object of the run was released",
				   (unsigned long long)n, (unsigned long long)g_alloc.live_bytes()));
}

const char *verr_name(int e)
{
	switch (e) {
	case JWT_VALUE_ERR_NONE:
		return "NONE";
	case JWT_VALUE_ERR_EXIST:
		return "EXIST";
	case JWT_VALUE_ERR_NOEXIST:
		return "NOEXIST";
	case JWT_VALUE_ERR_TYPE:
		return "TYPE";
	case JWT_VALUE_ERR_INVALID:
		return "INVALID";
	case JWT_VALUE_ERR_NOMEM:
		return "NOMEM";
	}
	return "?";
}
