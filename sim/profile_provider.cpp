// Profile "provider" (C12 a): histories of jwt_set_crypto_ops(name) / jwt_set_crypto_ops_t(id) /
// simulated process restarts under JWT_CRYPTO, interleaved with sign/verify use, against a model
// of the process-wide current provider. A few restarts are validated against a true re-exec.
#include "lib.hpp"
#include "world.hpp"
#include <unistd.h>
#include <fcntl.h>
#include <sys/wait.h>

extern "C" void jwt_init(void);

static const char *NAMES[] = {"openssl", "gnutls", "OpenSSL", "GNUTLS", "GnuTLS", "openss", "openssl3", "gnutl", "gnutls ", " gnutls",
			      "open ssl", "", "mbedtls", "wolfssl", "gnutlsopenssl", "g", "opensslgnutls", "Gnutls", "openssl\t", "mbedTLS"};
static const int N_NAMES = (int)ARRAY_LEN(NAMES);

static void provider_gen(Rng &r, Plan &p, Tier tier, uint64_t index)
{
	(void)index;
	int n = (int)r.range(4, tier == QUICK ? 25 : 50);
	for (int i = 0; i < n; i++) {
		Step s;
		switch (r.below(8)) {
		case 0:
		case 1:
		case 2:
			s = Step("SETNAME");
			s.set("name", r.chance(1, 2) ? (int64_t)r.below(2) : (int64_t)r.below((uint64_t)N_NAMES));
			break;
		case 3:
		case 4:
			s = Step("SETID");
			s.set("id", r.chance(1, 2) ? r.range(1, 2) : r.range(-1, 7));
			break;
		case 5:
			s = Step("RESTART");
			s.set("env", r.chance(1, 3) ? -1 : (r.chance(1, 2) ? (int64_t)r.below(2) : (int64_t)r.below((uint64_t)N_NAMES)));
			if (r.chance(1, 12))
				s.set("real", 1);
			break;
		default:
			s = Step("USE");
			s.set("alg", (int64_t)r.below(3));
		}
		s.uid = (uint64_t)i + 1;
		p.steps.push_back(s);
	}
}

static std::string real_restart_provider(const char *env)
{
	int pfd[2];
	if (pipe(pfd) != 0)
		return "?";
	fflush(stdout);
	pid_t pid = fork();
	if (pid == 0) {
		close(pfd[0]);
		dup2(pfd[1], 1);
		int dn = open("/dev/null", 1);
		if (dn >= 0)
			dup2(dn, 2);
		if (env)
			setenv("JWT_CRYPTO", env, 1);
		else
			unsetenv("JWT_CRYPTO");
		execl("/proc/self/exe", "jwtsim", "probe-provider", (char *)NULL);
		_exit(127);
	}
	close(pfd[1]);
	char buf[64];
	ssize_t n = read(pfd[0], buf, sizeof buf - 1);
	close(pfd[0]);
	int st;
	waitpid(pid, &st, 0);
	if (n <= 0)
		return "?";
	buf[n] = 0;
	std::string r = buf;
	while (!r.empty() && (r.back() == '\n' || r.back() == ' '))
		r.pop_back();
	return r;
}

static void provider_exec(Ctx &ctx)
{
	const Plan &plan = *ctx.plan;
	ctx.nontrivial = plan.steps.size() >= 3;
	int cur = PROV_OPENSSL; // sim_reset_run selected it
	Rng kr(mix64(plan.rng, 0xC12));
	KeyRef oct = key_gen_oct(kr, 64);
	sim_entropy_point(mix64(plan.rng, 1));
	KeyRef ec = key_gen_ec("P-256");
	LoadedKey lo, le;
	JwkOpts jo;
	lib_load_key(ctx, jwk_export(*oct, jo), lo); // loaded once, used under whichever provider is current
	lib_load_key(ctx, jwk_export(*ec, jo), le);

	for (size_t si = 0; si < plan.steps.size(); si++) {
		const Step &s = plan.steps[si];
		ctx.cur_step = (int)si;
		std::string desc;
		if (s.op == "SETNAME") {
			const char *name = NAMES[(uint64_t)s.I("name") % N_NAMES];
			int r = jwt_set_crypto_ops(name);
			int want = !strcmp(name, "openssl") ? PROV_OPENSSL : !strcmp(name, "gnutls") ? PROV_GNUTLS : -1;
			desc = strf("jwt_set_crypto_ops(\"%s\")", show(name).c_str());
			if (want >= 0)
				cur = want;
			if ((r == 0) != (want >= 0))
				ctx.violation("C12", "set-ops-return", want >= 0 ? "exact-name-refused" : "near-miss-accepted",
					      strf("%s returned %d; the name %s a compiled-in provider", desc.c_str(), r, want >= 0 ? "is exactly" : "is not"));
			ctx.count(want >= 0 ? "probe:provider_switch_exact_name" : "fault:provider_switch_refused_name");
		} else if (s.op == "SETID") {
			int id = (int)s.I("id");
			int r = jwt_set_crypto_ops_t((jwt_crypto_provider_t)id);
			int want = id == JWT_CRYPTO_OPS_OPENSSL ? PROV_OPENSSL : id == JWT_CRYPTO_OPS_GNUTLS ? PROV_GNUTLS : -1;
			desc = strf("jwt_set_crypto_ops_t(%d)", id);
			if (want >= 0)
				cur = want;
			if ((r == 0) != (want >= 0))
				ctx.violation("C12", "set-ops-return", want >= 0 ? "compiled-id-refused" : "foreign-id-accepted", strf("%s returned %d", desc.c_str(), r));
			ctx.count(want >= 0 ? "probe:provider_switch_compiled_id" : "fault:provider_switch_refused_id");
		} else if (s.op == "RESTART") {
			int64_t e = s.I("env");
			const char *env = e < 0 ? NULL : NAMES[(uint64_t)e % N_NAMES];
			if (env)
				setenv("JWT_CRYPTO", env, 1);
			else
				unsetenv("JWT_CRYPTO");
			// process restart stub: the load-time constructor runs again under this environment
			int save = dup(2);
			int dn = open("/dev/null", 1);
			fflush(stderr);
			if (dn >= 0) {
				dup2(dn, 2); // the fallback notice goes to stderr; keep worker stderr for sanitizer reports
				close(dn);
			}
			jwt_init();
			fflush(stderr);
			if (save >= 0) {
				dup2(save, 2);
				close(save);
			}
			cur = env && !strcmp(env, "gnutls") ? PROV_GNUTLS : PROV_OPENSSL;
			desc = strf("restart with JWT_CRYPTO=%s", env ? show(env).c_str() : "(unset)");
			ctx.count("fault:process_restart_under_env");
			if (s.I("real")) {
				std::string real = real_restart_provider(env);
				ctx.count("probe:restart_validated_by_true_reexec");
				if (real != prov_name(cur))
					ctx.violation("C12", "restart-real", "reexec", strf("a true re-exec under JWT_CRYPTO=%s starts with provider %s, the model says %s", env ? env : "(unset)", real.c_str(), prov_name(cur)));
			}
		} else if (s.op == "USE") {
			// sign and verify under the current provider with keys loaded earlier (possibly under the other one)
			int a = (int)s.I("alg") % 3;
			const AlgInfo *ai = alg_by_name(a == 0 ? "HS256" : a == 1 ? "HS512" : "ES256");
			LoadedKey &lk = a == 2 ? le : lo;
			KeyRef &kt = a == 2 ? ec : oct;
			jwt_builder_t *b;
			jwt_checker_t *c;
			{
				Armed ar;
				b = jwt_builder_new();
				c = jwt_checker_new();
			}
			jwt_builder_setkey(b, ai->id, lk.item);
			jwt_checker_setkey(c, ai->id, lk.item);
			sim_entropy_point(mix64(plan.rng, s.uid));
			GenerateOut go = lib_generate(ctx, b);
			desc = strf("use %s under %s", ai->name, prov_name(cur));
			if (!go.ok)
				ctx.violation("C12", "use-generate", ai->name, strf("generate failed under %s with a key loaded earlier: %s", prov_name(cur), go.msg.c_str()));
			else {
				TokenParts tp;
				token_split(go.token, tp);
				if (!ref_sig_valid(*kt, *ai, tp.signing_input, tp.seg[2]))
					ctx.violation("C12", "use-signature", ai->name, strf("token generated under %s is not valid per the reference", prov_name(cur)));
				VerifyOut vo = lib_verify(ctx, c, go.token.c_str());
				if (vo.ret != 0)
					ctx.violation("C12", "use-verify", ai->name, strf("verify failed under %s: %s", prov_name(cur), vo.msg.c_str()));
			}
			Armed ar;
			jwt_builder_free(b);
			jwt_checker_free(c);
		} else
			continue;
		const char *got = jwt_get_crypto_ops();
		jwt_crypto_provider_t gid = jwt_get_crypto_ops_t();
		ctx.logf("%s -> current %s (model %s)", desc.c_str(), got ? got : "(null)", prov_name(cur));
		ctx.sig(strf("C12a|%s|%s|%s", s.op.c_str(), got ? got : "-", prov_name(cur)));
		if (!got || strcmp(got, prov_name(cur)) || gid != (cur == PROV_GNUTLS ? JWT_CRYPTO_OPS_GNUTLS : JWT_CRYPTO_OPS_OPENSSL))
			ctx.violation("C12", "current-provider", s.op + (strcmp(prov_name(cur), "gnutls") ? ":model-openssl" : ":model-gnutls"),
				      strf("after %s the current provider is %s (id %d), the model says %s", desc.c_str(), got ? got : "(null)", (int)gid, prov_name(cur)));
		// resynchronise
		cur = got && !strcmp(got, "gnutls") ? PROV_GNUTLS : PROV_OPENSSL;
	}
	unsetenv("JWT_CRYPTO");
	set_provider(PROV_OPENSSL);
	lib_free_key(lo);
	lib_free_key(le);
	monitor_no_leak(ctx, "C06", "provider-run");
}

extern const Profile PROFILE_PROVIDER = {"provider", provider_gen, provider_exec};
