// jwtsim: master / worker driver, replay gate, shrinking, evidence.
#include "common.hpp"
#include "seams.hpp"
#include "ref.hpp"
#include "registry.hpp"
#include "world.hpp"
#include <unistd.h>
#include <poll.h>
#include <signal.h>
#include <fcntl.h>
#include <sys/wait.h>
#include <sys/stat.h>
#include <sys/time.h>
#include <sys/resource.h>
#include <time.h>
#include <errno.h>
#ifndef SIM_TSAN
#include <sanitizer/lsan_interface.h>
#endif

// Classify sanitizer exits; LeakSanitizer is off (the simulator's allocator does the
// attributable leak accounting for everything libjwt and jansson allocate).
extern "C" __attribute__((used, visibility("default"))) const char *__asan_default_options()
{
	// (fast_unwind_on_malloc=0 would let LeakSanitizer name the libjwt call site behind an allocation made
	// inside the uninstrumented crypto libraries, but it makes every allocation ten times slower; the
	// master instead re-executes a leaking plan once with ASAN_OPTIONS=fast_unwind_on_malloc=0 to put the
	// full stack into the replay file's detail.)
	return "exitcode=77:detect_leaks=1:leak_check_at_exit=0:abort_on_error=0:allocator_may_return_null=1:"
	       "detect_stack_use_after_return=0:handle_abort=1";
}
extern "C" __attribute__((used, visibility("default"))) const char *__ubsan_default_options()
{
	return "print_stacktrace=1:halt_on_error=1:exitcode=77";
}

extern "C" __attribute__((used, visibility("default"))) const char *__tsan_default_options()
{
	return "halt_on_error=1:exitcode=77:report_signal_unsafe=0:history_size=4";
}

static double wall_now()
{
	struct timespec ts;
	clock_gettime(CLOCK_MONOTONIC, &ts);
	return ts.tv_sec + ts.tv_nsec / 1e9;
}

static std::string esc_line(const std::string &s)
{
	std::string r;
	for (char c : s) {
		if (c == '\n')
			r += "\\n";
		else if (c == '\t')
			r += "\\t";
		else if (c == '\\')
			r += "\\\\";
		else
			r.push_back(c);
	}
	return r;
}
static std::string unesc_line(const std::string &s)
{
	std::string r;
	for (size_t i = 0; i < s.size(); i++) {
		if (s[i] == '\\' && i + 1 < s.size()) {
			char c = s[++i];
			r.push_back(c == 'n' ? '\n' : c == 't' ? '\t' : c);
		} else
			r.push_back(s[i]);
	}
	return r;
}

// ---------------------------------------------------------------- plan construction / execution
void make_plan(const CheckDef &cd, uint64_t verif_seed, uint64_t index, Tier tier, Plan &plan)
{
	const char *pname = cd.profiles[index % cd.profiles.size()];
	const Profile *pf = find_profile(pname);
	if (!pf) {
		fprintf(stderr, "jwtsim: unknown profile %s\n", pname);
		_exit(2);
	}
	plan = Plan();
	plan.profile = pname;
	plan.property = cd.property;
	plan.seed = mix64(verif_seed, index);
	Rng rng(plan.seed);
	plan.rng = rng.next();
	pf->gen(rng, plan, tier, index / cd.profiles.size());
	// guard bytes behind every block in half of the runs (no draw from the plan's generator)
	if (!plan.cfg.count("canary"))
		plan.cfg["canary"] = Val((int64_t)(mix64(plan.seed, 0xCA9A41) % 2 == 0 ? 1 : 0));
}

uint64_t exec_plan(const Plan &plan, Ctx &ctx)
{
	const Profile *pf = find_profile(plan.profile);
	if (!pf) {
		fprintf(stderr, "jwtsim: unknown profile %s\n", plan.profile.c_str());
		_exit(2);
	}
	sim_reset_run();
	ctx.plan = &plan;
	ctx.property = plan.property;
	// allocator address reuse is a per-run knob of the plan (see SimAlloc::reuse)
	g_alloc.reuse = plan.C("reuse") != 0;
	g_alloc.canary = plan.C("canary") != 0;
	if (g_alloc.canary)
		ctx.count("fault:allocator_guard_bytes_runs");
	pf->exec(ctx);
	g_alloc.check_live_canaries();
	if (g_alloc.canary_hits) {
		bool memsafe = plan.property == "C06" || plan.property == "C07" || plan.property == "C16" || plan.property == "C17" ||
			       plan.property == "C18";
		ctx.violation(memsafe ? plan.property : std::string("C06"), "heap-overflow-guard-bytes", plan.profile,
			      strf("%llu block(s) handed out by the installed allocator came back with the guard bytes behind them overwritten "
				   "(first: block of %zu bytes, byte %zu past its end)",
				   (unsigned long long)g_alloc.canary_hits, g_alloc.canary_block, g_alloc.canary_off));
	}
	if (g_alloc.foreign_frees) {
		// memory that did not come from the allocator installed with jwt_set_alloc() was handed to its free
		// function (with a pool or arena allocator that is memory corruption; with malloc underneath it is silent)
		bool memsafe = plan.property == "C06" || plan.property == "C07" || plan.property == "C16" || plan.property == "C17";
		ctx.violation(memsafe ? plan.property : std::string("C07"), "foreign-free", plan.profile,
			      strf("%llu pointer(s) that the installed allocator never handed out (or had already got back) were passed to its free function",
				   (unsigned long long)g_alloc.foreign_frees));
	}
	if (ctx.stats) {
		ctx.stats->sim_seconds += g_clock.covered;
		if (ctx.nontrivial)
			for (uint64_t g : ctx.sigs)
				ctx.stats->signatures.insert(g);
	}
	uint64_t h = ctx.log.h;
	sim_reset_run();
	return h;
}

// ---------------------------------------------------------------- LeakSanitizer (C06, C07, C16)
// The simulator's allocator accounts for everything libjwt and jansson allocate; memory that
// libjwt obtains from OpenSSL or GnuTLS (EVP_PKEY, BIO, gnutls datum...) is only visible to
// LeakSanitizer. A recoverable leak check costs ~100 ms CPU, so workers run it once per batch of
// runs and the master narrows a hit down by re-executing the batch's plans one per child.
static bool leak_property(const std::string &p)
{
	return p == "C06" || p == "C07" || p == "C16";
}

// returns "" when nothing leaked, else the LeakSanitizer report
static std::string lsan_check()
{
#ifdef SIM_TSAN
	return "";
#else
	static int seq = 0;
	mkdir("/verif/.build", 0755);
	mkdir("/verif/.build/run", 0755);
	std::string path = strf("/verif/.build/run/lsan-%d-%d.txt", (int)getpid(), seq++);
	fflush(stderr);
	int saved = dup(2);
	int fd = open(path.c_str(), O_WRONLY | O_CREAT | O_TRUNC, 0644);
	if (fd >= 0) {
		dup2(fd, 2);
		close(fd);
	}
	int leaks = __lsan_do_recoverable_leak_check();
	fflush(stderr);
	if (saved >= 0) {
		dup2(saved, 2);
		close(saved);
	}
	std::string rep;
	if (leaks) {
		FILE *f = fopen(path.c_str(), "rb");
		if (f) {
			char buf[8192];
			size_t n;
			while ((n = fread(buf, 1, sizeof buf, f)) > 0 && rep.size() < 20000)
				rep.append(buf, n);
			fclose(f);
		}
		if (rep.empty())
			rep = "(leak reported, no text)";
	}
	unlink(path.c_str());
	return rep;
#endif
}

static std::string leak_site(const std::string &rep)
{
	// first frame inside libjwt of the first leak
	size_t pos = 0;
	while ((pos = rep.find(" in ", pos)) != std::string::npos) {
		size_t s = pos + 4;
		size_t e = rep.find_first_of(" \n", s);
		size_t eol = rep.find('\n', s);
		if (rep.substr(s, eol - s).find("/libjwt/") != std::string::npos)
			return rep.substr(s, e - s);
		pos = s;
	}
	return "?";
}

static void lsan_monitor(const Plan &plan, Ctx &ctx)
{
	// C06, C07 and C16 speak of leaks over inputs and operation sequences, not over failing allocations: a run of the
	// world with injected allocation failures is judged for everything but leaks
	if (plan.C("allocfaults"))
		return;
	if (!leak_property(plan.property))
		return;
	std::string rep = lsan_check();
	if (rep.empty())
		return;
	// the cause key is constant: whether the unwinder gets through the crypto library to the libjwt
	// frame depends on the unwinder mode, and the key has to be the same in workers, children and replays
	ctx.violation(plan.property, "leak-lsan", "memory-obtained-from-crypto-library",
		      "LeakSanitizer: memory obtained through libjwt was not released after every object of the run was freed (first libjwt frame: " + leak_site(rep) + ")\n" +
			      rep.substr(0, 1200));
}

// ---------------------------------------------------------------- known findings
struct Known {
	std::string property, cause, status, what;
	bool prefix = false;
};
static std::vector<Known> g_known;

static void load_known(const std::string &path)
{
	json_error_t err;
	json_t *j = json_load_file(path.c_str(), 0, &err);
	if (!j)
		return;
	json_t *a = json_object_get(j, "findings");
	size_t i;
	json_t *e;
	json_array_foreach(a, i, e)
	{
		Known k;
		json_t *v;
		if ((v = json_object_get(e, "property")) && json_is_string(v))
			k.property = json_string_value(v);
		if ((v = json_object_get(e, "cause_key")) && json_is_string(v))
			k.cause = json_string_value(v);
		if ((v = json_object_get(e, "cause_prefix")) && json_is_string(v)) {
			k.cause = json_string_value(v);
			k.prefix = true;
		}
		if ((v = json_object_get(e, "status")) && json_is_string(v))
			k.status = json_string_value(v);
		if ((v = json_object_get(e, "what")) && json_is_string(v))
			k.what = json_string_value(v);
		g_known.push_back(k);
	}
	json_decref(j);
}

static const Known *known_match(const std::string &prop, const std::string &monitor, const std::string &cause)
{
	std::string full = monitor + ":" + cause;
	for (auto &k : g_known) {
		if (k.status != "known" || k.property != prop)
			continue;
		if (k.prefix ? full.compare(0, k.cause.size(), k.cause) == 0 : full == k.cause)
			return &k;
	}
	return NULL;
}

// ---------------------------------------------------------------- child execution of one plan
struct ChildResult {
	bool ran = false;        // child finished normally
	bool crashed = false;
	int status = 0;
	uint64_t hash = 0;
	std::vector<Violation> viol;
	std::string crash_class; // for crashed children
	std::string stderr_text;
};

static std::string run_dir()
{
	static std::string d;
	if (d.empty()) {
		mkdir("/verif/.build", 0755);
		mkdir("/verif/.build/run", 0755);
		d = strf("/verif/.build/run/%d", (int)getpid());
		mkdir(d.c_str(), 0755);
	}
	return d;
}

static std::string read_file(const std::string &p, size_t cap = 1 << 20)
{
	std::string r;
	FILE *f = fopen(p.c_str(), "rb");
	if (!f)
		return r;
	char buf[8192];
	size_t n;
	while ((n = fread(buf, 1, sizeof buf, f)) > 0 && r.size() < cap)
		r.append(buf, n);
	fclose(f);
	return r;
}

// Turn a sanitizer report into a stable class: kind + first libjwt frame.
// Every run has a wall-clock limit (C06/C07: the calls return). The handler names the place and ends the process; the
// master (or the parent of a gate child) then sees a dead process in the middle of a run, as for any crash.
extern "C" void __sanitizer_print_stack_trace(void);
static const unsigned RUN_WALL_LIMIT_S = 45;
static void on_run_alarm(int)
{
	static const char m[] = "jwtsim: HANG the run exceeded its wall-clock limit; stack of the thread that took the signal:\n";
	ssize_t w = write(2, m, sizeof m - 1);
	(void)w;
	__sanitizer_print_stack_trace();
	_exit(79);
}

static std::string classify_crash(const std::string &err, int status)
{
	std::string kind = "abort";
	size_t p;
	if ((p = err.find("WARNING: ThreadSanitizer: ")) != std::string::npos) {
		size_t s = p + strlen("WARNING: ThreadSanitizer: ");
		size_t e = err.find_first_of("(\n", s);
		std::string k = err.substr(s, e - s);
		while (!k.empty() && k.back() == ' ')
			k.pop_back();
		for (auto &c : k)
			if (c == ' ')
				c = '-';
		// a report is a finding only if a frame of the library appears in one of its stacks
		size_t lp = err.find("/libjwt/");
		if (lp == std::string::npos)
			return "harness-bug:tsan-" + k;
		// frames look like "    #0 jwt_alg_str /repo/libjwt/jwt.c:28:15 (jwtsim+0x...)"
		size_t bol = err.rfind('\n', lp);
		std::string line = err.substr(bol == std::string::npos ? 0 : bol + 1, lp - (bol == std::string::npos ? 0 : bol + 1));
		std::string fn = "?";
		size_t h = line.find('#');
		if (h != std::string::npos) {
			size_t s1 = line.find(' ', h);
			size_t s2 = s1 == std::string::npos ? s1 : line.find(' ', s1 + 1);
			if (s1 != std::string::npos && s2 != std::string::npos)
				fn = line.substr(s1 + 1, s2 - s1 - 1);
		}
		return "tsan-" + k + "@" + fn;
	}
	if (err.find("jwtsim: HANG") != std::string::npos) {
		kind = "hang";
	} else if ((p = err.find("ERROR: AddressSanitizer: ")) != std::string::npos) {
		size_t s = p + strlen("ERROR: AddressSanitizer: ");
		size_t e = err.find_first_of(" \n", s);
		kind = "asan-" + err.substr(s, e - s);
	} else if ((p = err.find("runtime error: ")) != std::string::npos) {
		size_t s = p + strlen("runtime error: ");
		size_t e = err.find('\n', s);
		std::string m = err.substr(s, e - s);
		// keep the message words but drop addresses/values
		std::string w;
		for (char c : m) {
			if (isalpha((unsigned char)c) || c == ' ')
				w.push_back(c == ' ' ? '_' : c);
			if (w.size() > 40)
				break;
		}
		kind = "ubsan-" + w;
	} else if (WIFSIGNALED(status))
		kind = strf("signal-%d", WTERMSIG(status));
	else if (WIFEXITED(status))
		kind = strf("exit-%d", WEXITSTATUS(status));
	// a report whose innermost frame is harness code is a harness bug, never a finding
	size_t f0 = err.find("#0 ");
	if (f0 != std::string::npos && kind != "hang") {
		size_t eol = err.find('\n', f0);
		if (err.substr(f0, eol - f0).find("/verif/sim/") != std::string::npos)
			return "harness-bug:" + kind;
	}
	// first frame inside libjwt
	std::string where = "?";
	size_t pos = 0;
	while ((pos = err.find(" in ", pos)) != std::string::npos) {
		size_t s = pos + 4;
		size_t e = err.find_first_of(" \n", s);
		size_t eol = err.find('\n', s);
		std::string line = err.substr(s, eol - s);
		if (line.find("/libjwt/") != std::string::npos) {
			where = err.substr(s, e - s);
			// a hang is named after the outermost frame of the library (the call that does not return): the innermost
			// one depends on the instant the watchdog fired
			if (kind != "hang")
				break;
		}
		pos = s;
	}
	if (kind == "hang" && where == "?")
		return "harness-bug:hang"; // no frame of the library on the stack: the simulator itself is stuck
	return kind + "@" + where;
}

static void child_emit(FILE *out, const Ctx &ctx, uint64_t hash)
{
	fprintf(out, "H %llu\n", (unsigned long long)hash);
	for (auto &v : ctx.viol)
		fprintf(out, "V %s\t%s\t%s\t%s\t%d\n", v.property.c_str(), v.monitor.c_str(), esc_line(v.cause).c_str(),
			esc_line(v.detail).c_str(), v.step);
	fprintf(out, "D\n");
	fflush(out);
}

static bool parse_violation(const std::string &line, Violation &v)
{
	// "V prop\tmon\tcause\tdetail\tstep"
	std::vector<std::string> f;
	size_t s = 2;
	while (true) {
		size_t e = line.find('\t', s);
		if (e == std::string::npos) {
			f.push_back(line.substr(s));
			break;
		}
		f.push_back(line.substr(s, e - s));
		s = e + 1;
	}
	if (f.size() < 5)
		return false;
	v.property = f[0];
	v.monitor = f[1];
	v.cause = unesc_line(f[2]);
	v.detail = unesc_line(f[3]);
	v.step = atoi(f[4].c_str());
	return true;
}

// `prefix`: plans executed first in the same child process (their results are discarded). A run is meant
// to be a function of its plan alone; when a violation shows only after earlier runs in the same process,
// the library keeps state across objects, and the earlier plans become part of the replay file.
static ChildResult run_in_child(const Plan &plan, double timeout_s = 120, const std::vector<Plan> *prefix = nullptr)
{
	ChildResult cr;
	int pfd[2];
	if (pipe(pfd) != 0)
		return cr;
	std::string errp = run_dir() + strf("/child-%d.err", (int)getpid());
	fflush(stdout);
	fflush(stderr);
	pid_t pid = fork();
	if (pid == 0) {
		close(pfd[0]);
		int efd = open(errp.c_str(), O_WRONLY | O_CREAT | O_TRUNC, 0644);
		if (efd >= 0) {
			dup2(efd, 2);
			close(efd);
		}
		signal(SIGALRM, on_run_alarm);
		alarm((unsigned)timeout_s);
		FILE *out = fdopen(pfd[1], "w");
		if (prefix)
			for (auto &pp : *prefix) {
				Ctx pc;
				Stats ps;
				pc.stats = &ps;
				exec_plan(pp, pc);
			}
		Ctx ctx;
		Stats st;
		ctx.stats = &st;
		uint64_t h = exec_plan(plan, ctx);
		lsan_monitor(plan, ctx);
		child_emit(out, ctx, h);
		sim_scratch_cleanup();
		_exit(0);
	}
	close(pfd[1]);
	std::string data;
	char buf[4096];
	ssize_t n;
	while ((n = read(pfd[0], buf, sizeof buf)) > 0)
		data.append(buf, (size_t)n);
	close(pfd[0]);
	int status = 0;
	waitpid(pid, &status, 0);
	cr.status = status;
	bool done = false;
	size_t s = 0;
	while (s < data.size()) {
		size_t e = data.find('\n', s);
		if (e == std::string::npos)
			e = data.size();
		std::string line = data.substr(s, e - s);
		s = e + 1;
		if (line.compare(0, 2, "H ") == 0)
			cr.hash = strtoull(line.c_str() + 2, NULL, 10);
		else if (line.compare(0, 2, "V ") == 0) {
			Violation v;
			if (parse_violation(line, v))
				cr.viol.push_back(v);
		} else if (line == "D")
			done = true;
	}
	if (done && WIFEXITED(status) && WEXITSTATUS(status) == 0)
		cr.ran = true;
	else {
		cr.crashed = true;
		cr.stderr_text = read_file(errp);
		cr.crash_class = classify_crash(cr.stderr_text, status);
		Violation v;
		v.property = plan.property;
		v.monitor = "abort";
		v.cause = cr.crash_class;
		v.detail = cr.stderr_text.substr(0, 1500);
		cr.viol.push_back(v);
	}
	unlink(errp.c_str());
	return cr;
}

static bool has_key(const ChildResult &cr, const std::string &key)
{
	for (auto &v : cr.viol)
		if (v.key() == key)
			return true;
	return false;
}

// A process that died (sanitizer report, signal, watchdog) of something other than the simulator itself. After memory
// has been corrupted the place where a process gives way is not a function of the plan (a double free of a key object
// showed up as "attempting double-free" in one child and as an endless loop in the next): for findings of this kind any
// death reproduces the finding.
static bool has_abort(const ChildResult &cr)
{
	for (auto &v : cr.viol)
		if (v.monitor == "abort" && v.cause.compare(0, 12, "harness-bug:") != 0)
			return true;
	return false;
}
static bool has_finding(const ChildResult &cr, const std::string &key, bool any_crash)
{
	return any_crash ? has_abort(cr) : has_key(cr, key);
}

// ---------------------------------------------------------------- shrinking
struct Shrinker {
	bool any_crash = false;
	std::string key;
	int budget = 500;
	double deadline = 0;
	int tries = 0;
	std::vector<Plan> prefix;                       // earlier runs of the same process (usually none)
	std::function<bool(const Plan &)> tester;       // set while a plan of the prefix is being shrunk
	double child_timeout() const { return 60 + 2.0 * (double)prefix.size(); }
	bool test(const Plan &p)
	{
		if (tries >= budget || wall_now() > deadline)
			return false;
		tries++;
		if (tester)
			return tester(p);
		ChildResult cr = run_in_child(p, child_timeout(), prefix.empty() ? nullptr : &prefix);
		return has_finding(cr, key, any_crash);
	}
	// ddmin over the list of earlier plans, the failing plan stays last
	void shrink_prefix(const Plan &last)
	{
		size_t n = 2;
		while (!prefix.empty()) {
			size_t len = prefix.size();
			if (n > len)
				n = len;
			size_t chunk = (len + n - 1) / n;
			bool removed = false;
			for (size_t start = 0; start < len; start += chunk) {
				if (tries >= budget || wall_now() > deadline)
					return;
				std::vector<Plan> cand = prefix;
				size_t end = std::min(len, start + chunk);
				cand.erase(cand.begin() + (long)start, cand.begin() + (long)end);
				tries++;
				ChildResult cr = run_in_child(last, child_timeout(), &cand);
				if (has_finding(cr, key, any_crash)) {
					prefix = cand;
					removed = true;
					break;
				}
			}
			if (removed) {
				n = n > 2 ? n - 1 : 2;
				continue;
			}
			if (chunk == 1)
				break;
			n = std::min(len, n * 2);
		}
	}
	// ddmin over a vector of steps reachable through `get`
	bool ddmin(Plan &plan, const std::function<std::vector<Step> &(Plan &)> &get)
	{
		bool any = false;
		size_t n = 2;
		while (true) {
			std::vector<Step> &v = get(plan);
			size_t len = v.size();
			if (len == 0)
				break;
			if (n > len)
				n = len;
			size_t chunk = (len + n - 1) / n;
			bool removed = false;
			for (size_t start = 0; start < len; start += chunk) {
				Plan cand = plan;
				std::vector<Step> &cv = get(cand);
				size_t end = std::min(len, start + chunk);
				cv.erase(cv.begin() + (long)start, cv.begin() + (long)end);
				if (test(cand)) {
					plan = cand;
					removed = true;
					any = true;
					break;
				}
			}
			if (removed) {
				n = n > 2 ? n - 1 : 2;
				continue;
			}
			if (chunk == 1)
				break;
			n = std::min(len, n * 2);
			if (tries >= budget || wall_now() > deadline)
				break;
		}
		return any;
	}
	void shrink(Plan &plan)
	{
		ddmin(plan, [](Plan &p) -> std::vector<Step> & { return p.steps; });
		// sub-steps (faults, mutations, callback programs)
		for (size_t i = 0; i < plan.steps.size(); i++) {
			if (plan.steps[i].sub.empty())
				continue;
			ddmin(plan, [i](Plan &p) -> std::vector<Step> & { return p.steps[i].sub; });
		}
		// simplify integer arguments towards 0 (by convention 0 is the simplest variant)
		for (size_t i = 0; i < plan.steps.size(); i++) {
			std::vector<std::string> keys;
			for (auto &kv : plan.steps[i].kv)
				if (!kv.second.is_str && kv.second.i != 0)
					keys.push_back(kv.first);
			for (auto &k : keys) {
				Plan cand = plan;
				cand.steps[i].kv[k] = Val((int64_t)0);
				if (test(cand))
					plan = cand;
			}
		}
		// one more pass over steps: simplifications may have made steps redundant
		ddmin(plan, [](Plan &p) -> std::vector<Step> & { return p.steps; });
		// the steps of the earlier plans
		for (size_t j = 0; j < prefix.size(); j++) {
			tester = [this, j, &plan](const Plan &c) {
				std::vector<Plan> pf = prefix;
				pf[j] = c;
				return has_finding(run_in_child(plan, child_timeout(), &pf), key, any_crash);
			};
			Plan pj = prefix[j];
			ddmin(pj, [](Plan &p) -> std::vector<Step> & { return p.steps; });
			prefix[j] = pj;
			tester = nullptr;
		}
	}
};

// ---------------------------------------------------------------- replay files
static std::string write_replay(const Plan &plan, const Violation &v, uint64_t verif_seed, uint64_t index,
				size_t orig_steps, int shrink_tries, const std::vector<Plan> *prefix = nullptr, size_t orig_prefix = 0)
{
	mkdir("/verif/replays", 0755);
	std::string path =
		strf("/verif/replays/%s-%llu-%llu.json", plan.property.c_str(), (unsigned long long)verif_seed,
		     (unsigned long long)index);
	json_t *o = json_object();
	json_object_set_new(o, "plan", plan_to_json(plan));
	if (prefix && !prefix->empty()) {
		// runs executed earlier in the same process, in order; the violation needs them
		json_t *h = json_array();
		for (auto &pp : *prefix)
			json_array_append_new(h, plan_to_json(pp));
		json_object_set_new(o, "history", h);
		json_object_set_new(o, "history_runs_before_shrinking", json_integer((json_int_t)orig_prefix));
	}
	json_t *e = json_object();
	json_object_set_new(e, "property", json_string(v.property.c_str()));
	json_object_set_new(e, "monitor", json_string(v.monitor.c_str()));
	json_object_set_new(e, "cause", json_string(v.cause.c_str()));
	json_object_set_new(e, "detail", json_string(show(v.detail, 1500).c_str()));
	if (v.detail.compare(0, 11, "[any crash]") == 0)
		json_object_set_new(e, "any_crash", json_true()); // the replay reproduces when the process dies, wherever it does
	json_object_set_new(o, "expect", e);
	json_object_set_new(o, "verif_seed", json_string(strf("%llu", (unsigned long long)verif_seed).c_str()));
	json_object_set_new(o, "run_index", json_integer((json_int_t)index));
	json_object_set_new(o, "steps_before_shrinking", json_integer((json_int_t)orig_steps));
	json_object_set_new(o, "steps_after_shrinking", json_integer((json_int_t)plan.total_steps()));
	json_object_set_new(o, "shrink_candidates_run", json_integer(shrink_tries));
	char *s = json_dumps(o, JSON_INDENT(1) | JSON_SORT_KEYS);
	FILE *f = fopen(path.c_str(), "w");
	if (f && s) {
		fputs(s, f);
		fputc('\n', f);
		fclose(f);
	}
	sim_harness_free(s);
	json_decref(o);
	return path;
}

static bool load_replay(const std::string &path, Plan &plan, Violation &expect, std::vector<Plan> *prefix = nullptr)
{
	json_error_t err;
	json_t *o = json_load_file(path.c_str(), 0, &err);
	if (!o) {
		fprintf(stderr, "jwtsim: cannot read replay %s: %s\n", path.c_str(), err.text);
		return false;
	}
	bool ok = plan_from_json(json_object_get(o, "plan"), plan);
	json_t *hist = json_object_get(o, "history");
	if (prefix && hist && json_is_array(hist)) {
		size_t hi;
		json_t *hv;
		json_array_foreach(hist, hi, hv)
		{
			Plan pp;
			if (!plan_from_json(hv, pp))
				ok = false;
			prefix->push_back(pp);
		}
	}
	json_t *e = json_object_get(o, "expect");
	json_t *v;
	if (e) {
		if ((v = json_object_get(e, "property")) && json_is_string(v))
			expect.property = json_string_value(v);
		if ((v = json_object_get(e, "monitor")) && json_is_string(v))
			expect.monitor = json_string_value(v);
		if ((v = json_object_get(e, "cause")) && json_is_string(v))
			expect.cause = json_string_value(v);
		if ((v = json_object_get(e, "any_crash")) && json_is_true(v))
			expect.detail = "[any crash]";
	}
	json_decref(o);
	return ok;
}

static int cmd_replay(const std::string &path, bool verbose)
{
	Plan plan;
	Violation expect;
	std::vector<Plan> prefix;
	if (!load_replay(path, plan, expect, &prefix))
		return 2;
	printf("REPLAY %s profile=%s property=%s steps=%zu earlier_runs_in_same_process=%zu\n", path.c_str(), plan.profile.c_str(),
	       plan.property.c_str(), plan.total_steps(), prefix.size());
	fflush(stdout);
	if (verbose) {
		for (size_t j = 0; j < prefix.size(); j++) {
			printf("  earlier run %zu (%s):\n", j, prefix[j].profile.c_str());
			for (size_t i = 0; i < prefix[j].steps.size(); i++)
				printf("    step %zu: %s\n", i, step_brief(prefix[j].steps[i]).c_str());
			Ctx pc;
			Stats ps;
			pc.stats = &ps;
			exec_plan(prefix[j], pc);
		}
		// in-process, so that the event log can be printed; a crash shows the sanitizer report
		Ctx ctx;
		Stats st;
		ctx.stats = &st;
		ctx.verbose = true;
		for (size_t i = 0; i < plan.steps.size(); i++)
			printf("  step %zu: %s\n", i, step_brief(plan.steps[i]).c_str());
		fflush(stdout);
		uint64_t h = exec_plan(plan, ctx);
		lsan_monitor(plan, ctx);
		for (auto &l : ctx.lines)
			printf("  | %s\n", l.c_str());
		printf("loghash=%016llx\n", (unsigned long long)h);
		for (auto &v : ctx.viol)
			printf("VIOLATION-DETAIL property=%s monitor=%s cause=%s\n  %s\n", v.property.c_str(),
			       v.monitor.c_str(), v.cause.c_str(), v.detail.c_str());
		bool hit = false;
		for (auto &v : ctx.viol)
			if (expect.property.empty() || v.key() == expect.key())
				hit = true;
		if (hit)
			printf("REPRODUCED %s\n", expect.key().c_str());
		sim_scratch_cleanup();
		return hit ? 1 : 0;
	}
	ChildResult cr = run_in_child(plan, 120 + 2.0 * (double)prefix.size(), prefix.empty() ? nullptr : &prefix);
	for (auto &v : cr.viol)
		printf("VIOLATION-DETAIL property=%s monitor=%s cause=%s\n  %s\n", v.property.c_str(), v.monitor.c_str(),
		       v.cause.c_str(), show(v.detail, 1200).c_str());
	bool hit = expect.property.empty() ? !cr.viol.empty() : has_finding(cr, expect.key(), expect.detail == "[any crash]");
	if (hit) {
		printf("REPRODUCED %s\n", expect.key().c_str());
		printf("VIOLATION property=%s replay=%s\n", plan.property.c_str(), path.c_str());
		return 1;
	}
	printf("NOT-REPRODUCED %s\n", expect.key().c_str());
	return 0;
}

// ---------------------------------------------------------------- worker
struct WorkerCfg {
	const CheckDef *cd;
	uint64_t verif_seed;
	Tier tier;
	uint64_t first, stride, limit;
	double deadline;
	int out_fd;
};

static void worker_main(const WorkerCfg &wc)
{
	signal(SIGALRM, on_run_alarm);
	FILE *out = fdopen(wc.out_fd, "w");
	Stats st;
	uint64_t nsamples = 0;
	std::vector<uint64_t> lsan_batch;
	bool leaked = false;
	for (uint64_t i = wc.first; i < wc.limit && !leaked; i += wc.stride) {
		if (wall_now() > wc.deadline) {
			fprintf(out, "T %llu\n", (unsigned long long)i);
			break;
		}
		fprintf(out, "B %llu\n", (unsigned long long)i);
		fflush(out);
		Plan plan;
		make_plan(*wc.cd, wc.verif_seed, i, wc.tier, plan);
		Ctx ctx;
		ctx.stats = &st;
		alarm(RUN_WALL_LIMIT_S);
		uint64_t h = exec_plan(plan, ctx);
		alarm(0);
		// determinism sample: the same plan again in the same (now dirtier) process
		if (mix64(i, 77) % 40 == 0 && ctx.viol.empty()) {
			Ctx c2;
			Stats s2;
			c2.stats = &s2;
			uint64_t h2 = exec_plan(plan, c2);
			st.inc("determinism_reexecutions");
			if (h2 != h) {
				fprintf(out, "N %llu\n", (unsigned long long)i);
				fflush(out);
			}
		}
		for (auto &v : ctx.viol)
			fprintf(out, "V %llu\t%s\t%s\t%s\t%s\t%d\n", (unsigned long long)i, v.property.c_str(),
				v.monitor.c_str(), esc_line(v.cause).c_str(), esc_line(show(v.detail, 1500)).c_str(),
				v.step);
		fprintf(out, "E %llu %llu %d %zu\n", (unsigned long long)i, (unsigned long long)h, ctx.nontrivial ? 1 : 0,
			plan.total_steps());
		if (leak_property(wc.cd->property)) {
			if (!plan.C("allocfaults"))
				lsan_batch.push_back(i);
			if (lsan_batch.size() >= 16 || i + wc.stride >= wc.limit) {
				st.inc("lsan_batch_checks");
				if (!lsan_check().empty()) {
					// the master finds the leaking run(s) by re-executing the batch one plan per child
					fprintf(out, "L");
					for (uint64_t b : lsan_batch)
						fprintf(out, " %llu", (unsigned long long)b);
					fprintf(out, "\n");
					fflush(out);
					leaked = true;
				}
				lsan_batch.clear();
			}
		}
		if (nsamples < 2 && ctx.nontrivial && wc.first < 4) {
			Plan brief = plan;
			fprintf(out, "X %s\n", esc_line(plan_dump(brief)).c_str());
			nsamples++;
		}
		fflush(out);
	}
	for (auto &kv : st.counters)
		fprintf(out, "S %s\t%llu\n", kv.first.c_str(), (unsigned long long)kv.second);
	fprintf(out, "Z %llu\n", (unsigned long long)st.sim_seconds);
	for (uint64_t g : st.signatures)
		fprintf(out, "G %llu\n", (unsigned long long)g);
	fprintf(out, "Q\n");
	fflush(out);
	sim_scratch_cleanup();
	_exit(0);
}

// ---------------------------------------------------------------- master
struct WorkerSlot {
	pid_t pid = -1;
	int fd = -1;
	std::string buf;
	uint64_t cur = UINT64_MAX; // run in progress (after B, before E)
	uint64_t next_first = 0;
	uint64_t inc_first = 0; // first run of this incarnation of the worker process
	bool finished = false;
	bool leak_exit = false;
	std::string errpath;
};

struct Found {
	uint64_t index;
	Violation v;
	uint64_t hist_first; // first run executed by the worker process that reported it
};

static int cmd_check(const std::string &property, Tier tier, uint64_t verif_seed, int nworkers, uint64_t runs_override,
		     double budget_s, const std::string &evidence_path, bool hashes_out)
{
	const CheckDef *cd = find_check(property);
	if (!cd) {
		fprintf(stderr, "jwtsim: no check for property %s\n", property.c_str());
		return 2;
	}
	double t0 = wall_now();
	uint64_t runs = runs_override ? runs_override : (tier == QUICK ? cd->runs_quick : cd->runs_thorough);
	double deadline = t0 + budget_s;
	rsa_pool_ensure(false);

	std::vector<WorkerSlot> slots((size_t)nworkers);
	Stats total;
	std::map<uint64_t, uint64_t> hashes;
	uint64_t completed = 0, nontrivial_runs = 0, total_steps = 0;
	std::vector<Found> found;           // unknown violations (distinct keys)
	std::set<std::string> found_keys;
	std::map<std::string, uint64_t> known_hits;
	std::map<std::string, std::string> known_what;
	std::vector<std::string> samples;
	bool nondeterminism = false;
	bool timed_out = false;
	bool stopping = false;
	double stop_after_first = getenv("JWTSIM_STOP_AFTER_FIRST") ? atof(getenv("JWTSIM_STOP_AFTER_FIRST")) : 0, first_found_at = 0;
	std::vector<uint64_t> leak_candidates;

	auto spawn = [&](size_t w, uint64_t first) {
		int pfd[2];
		if (pipe(pfd) != 0) {
			perror("pipe");
			exit(2);
		}
		WorkerSlot &s = slots[w];
		s.errpath = run_dir() + strf("/worker-%zu.err", w);
		fflush(stdout);
		fflush(stderr);
		pid_t pid = fork();
		if (pid == 0) {
			close(pfd[0]);
			for (auto &o : slots)
				if (o.fd >= 0)
					close(o.fd);
			int efd = open(s.errpath.c_str(), O_WRONLY | O_CREAT | O_TRUNC, 0644);
			if (efd >= 0) {
				dup2(efd, 2);
				close(efd);
			}
			WorkerCfg wc{cd, verif_seed, tier, first, (uint64_t)nworkers, runs, deadline, pfd[1]};
			worker_main(wc);
			_exit(0);
		}
		close(pfd[1]);
		s.pid = pid;
		s.fd = pfd[0];
		s.inc_first = first;
		s.buf.clear();
		s.cur = UINT64_MAX;
		s.finished = false;
		s.leak_exit = false;
	};

	for (size_t w = 0; w < slots.size(); w++)
		spawn(w, w);

	auto handle_line = [&](WorkerSlot &s, const std::string &line) {
		if (line.size() < 1)
			return;
		char t = line[0];
		const char *rest = line.c_str() + (line.size() > 1 ? 2 : 1);
		switch (t) {
		case 'B':
			s.cur = strtoull(rest, NULL, 10);
			break;
		case 'E': {
			unsigned long long i, h;
			int nt;
			size_t steps;
			if (sscanf(rest, "%llu %llu %d %zu", &i, &h, &nt, &steps) == 4) {
				hashes[i] = h;
				completed++;
				if (nt)
					nontrivial_runs++;
				total_steps += steps;
				s.next_first = i + (uint64_t)nworkers;
			}
			s.cur = UINT64_MAX;
			break;
		}
		case 'V': {
			// "V idx\tprop\tmon\tcause\tdetail\tstep"
			size_t tab = line.find('\t');
			uint64_t idx = strtoull(rest, NULL, 10);
			Violation v;
			if (tab != std::string::npos && parse_violation("V " + line.substr(tab + 1), v)) {
				const Known *k = known_match(v.property, v.monitor, v.cause);
				if (k) {
					known_hits[k->cause]++;
					known_what[k->cause] = k->what;
				} else if (!found_keys.count(v.key()) && found.size() < 6) {
					found_keys.insert(v.key());
					found.push_back(Found{idx, v, s.inc_first});
				}
			}
			break;
		}
		case 'N':
			nondeterminism = true;
			fprintf(stderr, "jwtsim: NONDETERMINISM run %s re-executed with a different event log\n", rest);
			break;
		case 'S': {
			size_t tab = line.find('\t');
			if (tab != std::string::npos)
				total.counters[line.substr(2, tab - 2)] += strtoull(line.c_str() + tab + 1, NULL, 10);
			break;
		}
		case 'Z':
			total.sim_seconds += strtoull(rest, NULL, 10);
			break;
		case 'G':
			total.signatures.insert(strtoull(rest, NULL, 10));
			break;
		case 'X':
			if (samples.size() < 3)
				samples.push_back(unesc_line(rest));
			break;
		case 'T':
			timed_out = true;
			break;
		case 'L': {
			const char *p = rest;
			while (*p) {
				char *end;
				unsigned long long v = strtoull(p, &end, 10);
				if (end == p)
					break;
				if (leak_candidates.size() < 96)
					leak_candidates.push_back(v);
				p = end;
			}
			s.leak_exit = true;
			break;
		}
		case 'Q':
			s.finished = true;
			break;
		}
	};

	while (true) {
		std::vector<struct pollfd> pfds;
		std::vector<size_t> idx;
		for (size_t w = 0; w < slots.size(); w++)
			if (slots[w].fd >= 0) {
				pfds.push_back({slots[w].fd, POLLIN, 0});
				idx.push_back(w);
			}
		if (pfds.empty())
			break;
		int pr = poll(pfds.data(), pfds.size(), 1000);
		if (pr < 0 && errno != EINTR)
			break;
		// sensitivity self-tests only (JWTSIM_STOP_AFTER_FIRST=<seconds>): once something was found, a few more seconds of
		// exploration and then straight to the gate - the question there is whether the check fails, not what else it covers
		if (stop_after_first > 0 && !found.empty() && !stopping) {
			if (first_found_at == 0)
				first_found_at = wall_now();
			else if (wall_now() > first_found_at + stop_after_first) {
				timed_out = true;
				stopping = true;
				deadline = 0;
				for (auto &o : slots)
					if (o.pid > 0 && o.fd >= 0)
						kill(o.pid, SIGKILL);
			}
		}
		for (size_t k = 0; k < pfds.size(); k++) {
			if (!(pfds[k].revents & (POLLIN | POLLHUP)))
				continue;
			WorkerSlot &s = slots[idx[k]];
			char buf[65536];
			ssize_t n = read(s.fd, buf, sizeof buf);
			if (n > 0) {
				s.buf.append(buf, (size_t)n);
				size_t st = 0, e;
				while ((e = s.buf.find('\n', st)) != std::string::npos) {
					handle_line(s, s.buf.substr(st, e - st));
					st = e + 1;
				}
				s.buf.erase(0, st);
				continue;
			}
			// EOF: worker ended
			close(s.fd);
			s.fd = -1;
			int status = 0;
			waitpid(s.pid, &status, 0);
			if (s.finished) {
				if (s.leak_exit && s.next_first < runs && wall_now() < deadline)
					spawn(idx[k], s.next_first);
				continue;
			}
			if (stopping)
				continue; // killed by the master after the early stop
			// died in the middle of a run
			uint64_t dead_run = s.cur;
			std::string err = read_file(s.errpath);
			if (dead_run == UINT64_MAX) {
				fprintf(stderr, "jwtsim: worker died outside a run (status %d)\n%s\n", status,
					err.substr(0, 2000).c_str());
				nondeterminism = true; // harness error
				continue;
			}
			Violation v;
			v.property = cd->property;
			v.monitor = "abort";
			v.cause = classify_crash(err, status);
			v.detail = err.substr(0, 1500);
			const Known *kn = known_match(v.property, v.monitor, v.cause);
			if (kn) {
				known_hits[kn->cause]++;
				known_what[kn->cause] = kn->what;
			} else if (!found_keys.count(v.key()) && found.size() < 6) {
				found_keys.insert(v.key());
				found.push_back(Found{dead_run, v, s.inc_first});
			}
			total.inc("worker_restarts");
			completed++;
			uint64_t nf = dead_run + (uint64_t)nworkers;
			// a tree on which runs keep dying (or hanging until the watchdog fires) has been shown to be broken: the
			// findings collected so far go through the gate, the rest of the exploration is dropped
			if (total.counters["worker_restarts"] >= 32 && !found.empty()) {
				if (!timed_out)
					fprintf(stderr, "jwtsim: %llu runs died; exploration stopped early, reporting what was found\n", (unsigned long long)total.counters["worker_restarts"]);
				timed_out = true;
				stopping = true;
				deadline = 0;
				for (auto &o : slots)
					if (o.pid > 0 && o.fd >= 0 && &o != &s)
						kill(o.pid, SIGKILL);
			}
			if (nf < runs && wall_now() < deadline)
				spawn(idx[k], nf);
		}
	}
	for (auto &s : slots)
		unlink(s.errpath.c_str());

	// runs of a batch in which LeakSanitizer saw a leak: one plan per child finds the culprit(s)
	for (uint64_t i : leak_candidates) {
		if (found.size() >= 6)
			break;
		Plan plan;
		make_plan(*cd, verif_seed, i, tier, plan);
		ChildResult cr = run_in_child(plan);
		total.inc("lsan_candidate_reexecutions");
		for (auto &v : cr.viol) {
			if (v.monitor != "leak-lsan")
				continue;
			const Known *k = known_match(v.property, v.monitor, v.cause);
			if (k) {
				known_hits[k->cause]++;
				known_what[k->cause] = k->what;
			} else if (!found_keys.count(v.key()) && found.size() < 6) {
				found_keys.insert(v.key());
				found.push_back(Found{i, v, i});
			}
		}
	}

	double t_explore = wall_now() - t0;

	// cross-process determinism sample: re-execute a few violation-free runs in fresh children
	// and compare event-log hashes (a mismatch is a harness error, never a finding)
	{
		std::vector<uint64_t> idxs;
		for (auto &kv : hashes)
			idxs.push_back(kv.first);
		Rng pick(mix64(verif_seed, 0xde7e));
		int want = tier == QUICK ? 12 : 48;
		std::set<uint64_t> bad;
		for (auto &f : found)
			bad.insert(f.index);
		for (int k = 0; k < want && !idxs.empty(); k++) {
			uint64_t i = idxs[pick.below(idxs.size())];
			if (bad.count(i))
				continue;
			Plan plan;
			make_plan(*cd, verif_seed, i, tier, plan);
			ChildResult cr = run_in_child(plan);
			total.inc("determinism_cross_process_reexecutions");
			if (cr.ran && cr.hash != hashes[i]) {
				fprintf(stderr, "jwtsim: NONDETERMINISM run %llu: hash %016llx in worker, %016llx in a fresh process\n", (unsigned long long)i,
					(unsigned long long)hashes[i], (unsigned long long)cr.hash);
				nondeterminism = true;
			}
		}
	}

	// ------------------------------------------------------------ gate, shrink, report
	int exit_code = 0;
	std::vector<std::string> violation_lines;
	for (auto &f : found) {
		Plan plan;
		make_plan(*cd, verif_seed, f.index, tier, plan);
		size_t orig_steps = plan.total_steps();
		std::string key = f.v.key();
		if (f.v.cause.compare(0, 12, "harness-bug:") == 0) {
			fprintf(stderr, "jwtsim: HARNESS-ERROR run %llu: %s\n%s\n", (unsigned long long)f.index, f.v.cause.c_str(), f.v.detail.c_str());
			exit_code = 2;
			continue;
		}
		// 1. same plan in a fresh child: violation and event-log hash must match
		ChildResult a = run_in_child(plan);
		ChildResult b = run_in_child(plan);
		Shrinker sh;
		size_t orig_prefix = 0;
		// a process that died: when the re-executions die too, but elsewhere, that reproduces it (see has_abort)
		bool any_crash = f.v.monitor == "abort" && !(has_key(a, key) && has_key(b, key)) && has_abort(a) && has_abort(b);
		if (any_crash)
			fprintf(stderr, "jwtsim: run %llu died as %s in the worker and differently in the re-executions (memory was corrupted before): any death counts\n",
				(unsigned long long)f.index, f.v.cause.c_str());
		sh.any_crash = any_crash;
		if (!has_key(a, key) && !has_key(b, key) && a.ran && b.ran && a.hash == b.hash && f.hist_first < f.index) {
			// Alone the plan is violation-free, deterministically. The worker had executed other runs before it in
			// the same process: re-execute growing suffixes of that history in front of the plan.
			std::vector<Plan> hist;
			for (uint64_t i = f.hist_first; i < f.index; i += (uint64_t)nworkers) {
				if (f.index - i > (uint64_t)nworkers * 4000)
					continue;
				Plan hp;
				make_plan(*cd, verif_seed, i, tier, hp);
				hist.push_back(hp);
				if (mix64(i, 77) % 40 == 0)
					hist.push_back(hp); // the worker's in-process determinism sample ran it twice
			}
			double hdeadline = wall_now() + (tier == QUICK ? 420 : 1200);
			for (size_t k = 1; !hist.empty() && wall_now() < hdeadline; k = std::min(hist.size(), k * 4)) {
				std::vector<Plan> suffix(hist.end() - (long)k, hist.end());
				ChildResult h1 = run_in_child(plan, 120 + 2.0 * (double)k, &suffix);
				if (has_key(h1, key)) {
					ChildResult h2 = run_in_child(plan, 120 + 2.0 * (double)k, &suffix);
					if (has_key(h2, key) && h1.hash == h2.hash) {
						sh.prefix = suffix;
						orig_prefix = hist.size();
						a = h1;
						b = h2;
						fprintf(stderr, "jwtsim: violation %s of run %llu needs earlier runs in the same process (reproduced with the last %zu of %zu)\n",
							key.c_str(), (unsigned long long)f.index, k, hist.size());
					}
					break;
				}
				if (k == hist.size())
					break;
			}
		}
		if (!has_finding(a, key, any_crash) || !has_finding(b, key, any_crash) || (a.ran && b.ran && a.hash != b.hash)) {
			fprintf(stderr,
				"jwtsim: HARNESS-ERROR violation %s of run %llu did not reproduce deterministically "
				"(a=%d b=%d hash %llx/%llx)\n",
				key.c_str(), (unsigned long long)f.index, has_key(a, key), has_key(b, key),
				(unsigned long long)a.hash, (unsigned long long)b.hash);
			exit_code = 2;
			continue;
		}
		// 2. shrink
		sh.key = key;
		sh.deadline = wall_now() + (tier == QUICK ? 60 : 180) + (sh.prefix.empty() ? 0 : 240);
		if (!sh.prefix.empty())
			sh.shrink_prefix(plan);
		sh.shrink(plan);
		// 3. write, replay in a fresh process
		Violation fv = f.v;
		ChildResult fin = run_in_child(plan, sh.child_timeout(), sh.prefix.empty() ? nullptr : &sh.prefix);
		for (auto &v : fin.viol)
			if (v.key() == key)
				fv = v;
		if (any_crash)
			fv.detail = "[any crash] " + fv.detail;
		if (!sh.prefix.empty())
			fv.detail += strf(" [only after %zu earlier run(s) in the same process (see \"history\" in the replay file): state kept by the library outside the objects of a run]",
					  sh.prefix.size());
		std::string path = write_replay(plan, fv, verif_seed, f.index, orig_steps, sh.tries, &sh.prefix, orig_prefix);
		std::string cmd = strf("/proc/%d/exe replay %s >/dev/null 2>&1", (int)getpid(), path.c_str());
		int rc = system(cmd.c_str());
		if (!(WIFEXITED(rc) && WEXITSTATUS(rc) == 1)) {
			fprintf(stderr, "jwtsim: HARNESS-ERROR replay file %s did not reproduce in a fresh process (rc=%d)\n",
				path.c_str(), rc);
			exit_code = 2;
			continue;
		}
		if (fv.monitor == "leak-lsan") {
			// once more with the slow unwinder, so that the report names the libjwt call site
			std::string c2 = strf("ASAN_OPTIONS=fast_unwind_on_malloc=0 /proc/%d/exe replay %s --verbose 2>&1", (int)getpid(), path.c_str());
			FILE *pf = popen(c2.c_str(), "r");
			if (pf) {
				char line[1024];
				int shown = 0;
				while (fgets(line, sizeof line, pf))
					if (shown < 14 && (strstr(line, "first libjwt frame") || strstr(line, " in ") || strstr(line, "leak of"))) {
						printf("LEAK-STACK %s", line);
						shown++;
					}
				pclose(pf);
			}
		}
		printf("VIOLATION-DETAIL property=%s monitor=%s cause=%s run=%llu steps=%zu->%zu\n  %s\n",
		       fv.property.c_str(), fv.monitor.c_str(), fv.cause.c_str(), (unsigned long long)f.index, orig_steps,
		       plan.total_steps(), show(fv.detail, 600).c_str());
		violation_lines.push_back(strf("VIOLATION property=%s replay=%s", cd->property, path.c_str()));
		if (exit_code == 0)
			exit_code = 1;
	}
	if (nondeterminism)
		exit_code = 2;
	// A violation that passed the gate (same plan twice in fresh processes with identical event logs, shrunk, replay file
	// reproduced in yet another process) stands whatever else went wrong: a library that keeps state across the objects
	// of different runs makes other runs depend on their worker's history, which the determinism samples then report.
	if (!violation_lines.empty()) {
		if (exit_code == 2)
			fprintf(stderr, "jwtsim: harness-level anomalies above were reported next to %zu confirmed violation(s); exit status 1\n", violation_lines.size());
		exit_code = 1;
	}

	for (auto &kh : known_hits)
		printf("KNOWN-FINDING: property=%s %s [%s; hit %llu times]\n", cd->property, known_what[kh.first].c_str(),
		       kh.first.c_str(), (unsigned long long)kh.second);

	double wall = wall_now() - t0;

	if (hashes_out)
		for (auto &kv : hashes)
			printf("HASH %llu %016llx\n", (unsigned long long)kv.first, (unsigned long long)kv.second);

	// ------------------------------------------------------------ evidence
	if (!evidence_path.empty() && exit_code != 2) { // (never reached with exit 2: no evidence from a run whose harness misbehaved)
		json_t *ev = json_object();
		json_object_set_new(ev, "property_id", json_string(cd->property));
		json_object_set_new(ev, "tier", json_string(tier == QUICK ? "quick" : "thorough"));
		json_object_set_new(ev, "seed", json_integer((json_int_t)(verif_seed & 0x7fffffffffffffffULL)));
		json_object_set_new(ev, "level", json_string(cd->level));
		json_object_set_new(ev, "wall_s", json_real(wall));
		json_object_set_new(ev, "violations", json_integer((json_int_t)violation_lines.size()));
		json_t *cov = json_object();
		uint64_t evaluations = completed;
		if (total.counters.count("oom:faulted_executions")) {
			// fault enumeration: one evaluation = one faulted execution of a scenario
			evaluations = total.counters["oom:faulted_executions"];
			json_object_set_new(cov, "scenarios", json_integer((json_int_t)completed));
			json_object_set_new(cov, "exhaustive_over_allocation_index_per_scenario", json_true());
		}
		json_object_set_new(cov, "evaluations", json_integer((json_int_t)evaluations));
		json_object_set_new(cov, "distinct_nontrivial", json_integer((json_int_t)total.signatures.size()));
		json_object_set_new(cov, "rule", json_string(cd->rule));
		json_t *sa = json_array();
		for (auto &s : samples) {
			json_t *sj = json_loads(s.c_str(), 0, NULL);
			json_array_append_new(sa, sj ? sj : json_string(s.c_str()));
		}
		if (json_array_size(sa) == 0)
			json_array_append_new(sa, json_string("(no run completed)"));
		json_object_set_new(cov, "samples", sa);
		json_object_set_new(cov, "exhaustive", json_false());
		json_object_set_new(cov, "simulated_runs", json_integer((json_int_t)completed));
		json_object_set_new(cov, "nontrivial_runs", json_integer((json_int_t)nontrivial_runs));
		json_object_set_new(cov, "planned_runs", json_integer((json_int_t)runs));
		json_object_set_new(cov, "stopped_by_wall_budget", json_boolean(timed_out));
		json_object_set_new(cov, "total_plan_steps", json_integer((json_int_t)total_steps));
		json_object_set_new(cov, "runs_per_hour", json_integer((json_int_t)(t_explore > 0 ? completed / t_explore * 3600 : 0)));
		json_object_set_new(cov, "seeds_per_hour", json_integer((json_int_t)(t_explore > 0 ? completed / t_explore * 3600 : 0)));
		json_object_set_new(cov, "simulated_seconds_covered", json_integer((json_int_t)(total.sim_seconds & 0x7fffffffffffffffULL)));
		json_object_set_new(cov, "workers", json_integer(nworkers));
		json_t *fk = json_object(), *pr = json_object(), *ot = json_object();
		for (auto &kv : total.counters) {
			json_t *dst = ot;
			std::string name = kv.first;
			if (name.compare(0, 6, "fault:") == 0) {
				dst = fk;
				name = name.substr(6);
			} else if (name.compare(0, 6, "probe:") == 0) {
				dst = pr;
				name = name.substr(6);
			}
			json_object_set_new(dst, name.c_str(), json_integer((json_int_t)kv.second));
		}
		json_object_set_new(cov, "fault_kinds_fired", fk);
		json_object_set_new(cov, "probes", pr);
		json_object_set_new(cov, "counters", ot);
		json_t *rc = json_array(), *sc = json_array();
		for (auto c : cd->real_components)
			json_array_append_new(rc, json_string(c));
		for (auto c : cd->stub_components)
			json_array_append_new(sc, json_string(c));
		json_object_set_new(cov, "components_real", rc);
		json_object_set_new(cov, "components_simulated", sc);
		json_t *kf = json_object();
		for (auto &kh : known_hits)
			json_object_set_new(kf, kh.first.c_str(), json_integer((json_int_t)kh.second));
		json_object_set_new(cov, "known_findings_hit", kf);
		json_object_set_new(ev, "coverage", cov);
		json_t *as = json_array();
		for (auto a : cd->assumptions)
			json_array_append_new(as, json_string(a));
		json_object_set_new(ev, "assumptions", as);
		char *s = json_dumps(ev, JSON_INDENT(1) | JSON_SORT_KEYS);
		std::string tmp = evidence_path + strf(".tmp%d", (int)getpid());
		FILE *f = fopen(tmp.c_str(), "w");
		if (f && s) {
			fputs(s, f);
			fputc('\n', f);
			fclose(f);
			rename(tmp.c_str(), evidence_path.c_str());
		}
		sim_harness_free(s);
		json_decref(ev);
	}

	printf("SUMMARY property=%s tier=%s seed=%llu runs=%llu/%llu nontrivial=%llu distinct_signatures=%zu "
	       "violations=%zu known=%zu wall=%.1fs\n",
	       cd->property, tier == QUICK ? "quick" : "thorough", (unsigned long long)verif_seed,
	       (unsigned long long)completed, (unsigned long long)runs, (unsigned long long)nontrivial_runs,
	       total.signatures.size(), violation_lines.size(), known_hits.size(), wall);
	for (auto &l : violation_lines)
		printf("%s\n", l.c_str());
	fflush(stdout);
	rmdir(run_dir().c_str());
	return exit_code;
}

// ---------------------------------------------------------------- single run (debugging)
static int cmd_run1(const std::string &property, Tier tier, uint64_t verif_seed, uint64_t index, bool dump)
{
	const CheckDef *cd = find_check(property);
	if (!cd)
		return 2;
	rsa_pool_ensure(false);
	Plan plan;
	make_plan(*cd, verif_seed, index, tier, plan);
	if (dump)
		printf("%s\n", plan_dump(plan, true).c_str());
	Ctx ctx;
	Stats st;
	ctx.stats = &st;
	ctx.verbose = true;
	uint64_t h = exec_plan(plan, ctx);
	for (auto &l : ctx.lines)
		printf("| %s\n", l.c_str());
	for (auto &v : ctx.viol)
		printf("VIOLATION-DETAIL %s\n  %s\n", v.key().c_str(), v.detail.c_str());
	for (auto &kv : st.counters)
		printf("counter %s = %llu\n", kv.first.c_str(), (unsigned long long)kv.second);
	printf("loghash=%016llx nontrivial=%d\n", (unsigned long long)h, ctx.nontrivial);
	sim_scratch_cleanup();
	return ctx.viol.empty() ? 0 : 1;
}

// debugging aid: execute runs first, first+stride, ... up to `last` in this one process (the history a
// worker with that stride would have) and print the event log of the last one
static int cmd_history(const std::string &property, Tier tier, uint64_t verif_seed, uint64_t first, uint64_t stride, uint64_t last)
{
	const CheckDef *cd = find_check(property);
	if (!cd || !stride)
		return 2;
	rsa_pool_ensure(false);
	for (uint64_t i = first; i <= last; i += stride) {
		Plan plan;
		make_plan(*cd, verif_seed, i, tier, plan);
		Ctx ctx;
		Stats st;
		ctx.stats = &st;
		ctx.verbose = i + stride > last;
		uint64_t h = exec_plan(plan, ctx);
		if (ctx.verbose) {
			for (auto &l : ctx.lines)
				printf("| %s\n", l.c_str());
			printf("run %llu loghash=%016llx\n", (unsigned long long)i, (unsigned long long)h);
		}
	}
	return 0;
}

static void usage()
{
	fprintf(stderr, "usage: jwtsim check --property Cxx [--tier quick|thorough] [--seed N] [--workers N] [--runs N]\n"
			"                    [--budget-s S] [--evidence FILE] [--known FILE] [--hashes]\n"
			"       jwtsim replay FILE [--verbose]\n"
			"       jwtsim run1 --property Cxx --index I [--seed N] [--dump]\n"
			"       jwtsim setup\n"
			"       jwtsim list\n");
}

int main(int argc, char **argv)
{
	setvbuf(stdout, NULL, _IOLBF, 0);
	signal(SIGPIPE, SIG_IGN);
	json_object_seed(0x5eed5eed);
	sim_alloc_install();
	sim_entropy_install();
	if (argc < 2) {
		usage();
		return 2;
	}
	std::string cmd = argv[1];
	if (cmd == "probe-provider") {
		// what a freshly started process selected (the library constructor already ran)
		printf("%s\n", jwt_get_crypto_ops());
		return 0;
	}
	std::string property, evidence, known = "/verif/known_findings.json", file;
	Tier tier = QUICK;
	uint64_t seed = 1, runs = 0, index = 0;
	int workers = 16;
	double budget = 0;
	bool verbose = false, dump = false, hashes = false;
	const char *e;
	if ((e = getenv("VERIF_SEED")) && *e)
		seed = strtoull(e, NULL, 10);
	if ((e = getenv("VERIF_TIER")) && *e)
		tier = !strcmp(e, "thorough") ? THOROUGH : QUICK;
	if ((e = getenv("VERIF_WORKERS")) && *e)
		workers = atoi(e);
	bool tier_explicit = false;
	for (int i = 2; i < argc; i++) {
		std::string a = argv[i];
		auto next = [&]() -> const char * { return i + 1 < argc ? argv[++i] : ""; };
		if (a == "--property")
			property = next();
		else if (a == "--tier") {
			tier = !strcmp(next(), "thorough") ? THOROUGH : QUICK;
			tier_explicit = true;
		} else if (a == "--seed")
			seed = strtoull(next(), NULL, 10);
		else if (a == "--workers")
			workers = atoi(next());
		else if (a == "--runs")
			runs = strtoull(next(), NULL, 10);
		else if (a == "--budget-s")
			budget = atof(next());
		else if (a == "--evidence")
			evidence = next();
		else if (a == "--known")
			known = next();
		else if (a == "--index")
			index = strtoull(next(), NULL, 10);
		else if (a == "--verbose")
			verbose = true;
		else if (a == "--dump")
			dump = true;
		else if (a == "--hashes")
			hashes = true;
		else if (a[0] != '-')
			file = a;
	}
	(void)tier_explicit;
	if (workers < 1)
		workers = 1;
	if (workers > 64)
		workers = 64;
	if (budget <= 0)
		budget = tier == QUICK ? 150 : 1500;
	load_known(known);
	provider_probe();
	if (cmd == "check")
		return cmd_check(property, tier, seed, workers, runs, budget, evidence, hashes);
	if (cmd == "replay")
		return cmd_replay(file, verbose);
	if (cmd == "run1")
		return cmd_run1(property, tier, seed, index, dump);
	if (cmd == "history")
		return cmd_history(property, tier, seed, index % (uint64_t)workers, (uint64_t)workers, index);
	if (cmd == "setup") {
		rsa_pool_ensure(true);
		return 0;
	}
	if (cmd == "list") {
		for (auto &c : all_checks())
			printf("%s\n", c.property);
		return 0;
	}
	usage();
	return 2;
}
