// Independent reference: base64url codec (RFC 4648), token splitter, algorithm tables,
// ground-truth keys (generated with OpenSSL directly, never through libjwt), JWK exporter,
// signature validity computed with OpenSSL EVP on the ground-truth key.
#pragma once
#include "common.hpp"
#include <openssl/evp.h>

// ---------------------------------------------------------------- base64url
std::string b64url_encode(const std::string &bytes);
// strict: URL alphabet only, no padding, length != 1 mod 4, unused trailing bits zero
bool b64url_decode_strict(const std::string &text, std::string &out);
// lenient: both alphabets, optional padding, stop at the first '=', ignore trailing bits,
// ignore a dangling single character. Fails only on a byte outside both alphabets.
bool b64_decode_lenient(const std::string &text, std::string &out);

// ---------------------------------------------------------------- algorithms
enum Family { FAM_NONE = 0, FAM_HS, FAM_RS, FAM_PS, FAM_ES, FAM_ED, FAM_BAD };
struct AlgInfo {
	jwt_alg_t id;
	const char *name;
	Family fam;
	int hash_bits;  // 256/384/512 (EdDSA: 0)
	int ec_bits;    // ES: required curve size
	const char *ec_crv; // ES: curve name as in JWK
};
extern const AlgInfo ALGS[];   // indexed by jwt_alg_t up to JWT_ALG_INVAL-1
extern const int N_ALGS;
const AlgInfo *alg_by_name(const std::string &name); // exact, case-sensitive; NULL if unknown
const AlgInfo *alg_by_id(int id);                    // NULL when out of range / INVAL
const char *alg_name(int id);                        // "INVAL" / "?" for out-of-range

// ---------------------------------------------------------------- ground-truth keys
enum Kty { K_OCT = 0, K_RSA, K_EC, K_OKP };
struct KeyTruth {
	Kty kty = K_OCT;
	std::string oct;        // K_OCT
	EVP_PKEY *pkey = nullptr;
	int bits = 0;           // oct: 8*len; RSA: modulus bits; EC: curve bits; OKP: 256/456
	std::string crv;        // P-256, P-384, P-521, secp256k1, Ed25519, Ed448
	std::string label;      // e.g. "rsa2048#1"
	KeyTruth() {}
	~KeyTruth();
	KeyTruth(const KeyTruth &) = delete;
	KeyTruth &operator=(const KeyTruth &) = delete;
};
typedef std::shared_ptr<KeyTruth> KeyRef;

KeyRef key_gen_oct(Rng &rng, size_t len);
KeyRef key_gen_ec(const std::string &crv);   // draws from the simulated entropy stream
KeyRef key_gen_okp(const std::string &crv);
KeyRef key_rsa_pool(int bits, int idx);      // from the cached, deterministically generated pool
KeyRef key_rsa_fresh(int bits);              // thorough tier
extern const int RSA_POOL_BITS[];
extern const int N_RSA_POOL_BITS;
extern const int RSA_POOL_PER_SIZE;
void rsa_pool_ensure(bool verbose);          // generate the cache if missing

struct JwkOpts {
	bool priv = true;
	bool has_alg = false;
	std::string alg;          // string value of "alg" (when alg_raw empty)
	std::string alg_raw;      // raw JSON for a non-string alg (e.g. "null", "5")
	bool has_kid = false;
	std::string kid;
	std::string use;          // "" = absent
	std::vector<std::string> key_ops;
	int pad_zeros = 0;        // leading zero bytes added to big-endian integers
	bool ec_minimal = false;  // EC coordinates minimal-length instead of fixed width
	std::vector<std::pair<std::string, std::string>> extra; // member name -> raw JSON text
	bool rsa_partial_priv = false; // only d (no CRT params) - libjwt must flag it
	int oct_pad = 0;          // oct k: 1 = '=' padding to a multiple of four, 2 = '=' followed by more characters
};
// Returns the JWK as a jansson object (caller decrefs); NULL on internal error.
json_t *jwk_export_json(const KeyTruth &k, const JwkOpts &o);
std::string jwk_export(const KeyTruth &k, const JwkOpts &o);
std::string json_text(json_t *j); // compact, sorted

// raw components for comparisons
bool key_pub_equal(const KeyTruth &k, EVP_PKEY *other);
bool key_priv_equal(const KeyTruth &k, EVP_PKEY *other);
EVP_PKEY *pem_to_pkey(const char *pem, bool priv);
std::string key_pub_pem(const KeyTruth &k);
std::string key_pub_der(const KeyTruth &k);
std::string key_rsa_n(const KeyTruth &k);

// ---------------------------------------------------------------- signatures
std::string ref_hmac(int hash_bits, const std::string &key, const std::string &msg);
// Sign `msg` with the ground-truth key as RFC 7518 prescribes (raw r||s for ES*).
bool ref_sign(const KeyTruth &k, const AlgInfo &a, const std::string &msg, std::string &sig);
// Is `sig` (raw bytes) a valid signature of msg under key k and algorithm a?
bool ref_verify_raw(const KeyTruth &k, const AlgInfo &a, const std::string &msg, const std::string &sig);
// Full reference check for a token's third segment under the lenient reading.
bool ref_sig_valid(const KeyTruth &k, const AlgInfo &a, const std::string &signing_input,
		   const std::string &sig_b64);
// Does key k meet the family / strength rules for algorithm a (C02 family, C09 floor)?
bool key_family_ok(const KeyTruth &k, const AlgInfo &a);
bool key_strength_ok(const KeyTruth &k, const AlgInfo &a);

// ---------------------------------------------------------------- tokens
struct TokenParts {
	int dots = 0;
	std::string seg[3]; // text of the three first segments (third = everything after 2nd dot)
	bool has2 = false;
	std::string signing_input; // bytes before the second dot
	bool hdr_ok = false;       // segment 1 decodes (lenient) to a JSON object
	json_t *hdr = nullptr;
	bool alg_present = false, alg_is_string = false;
	std::string alg;           // header alg string
	bool pay_ok = false;       // segment 2 decodes (lenient) to JSON (object or array)
	json_t *pay = nullptr;
	TokenParts() {}
	~TokenParts();
	TokenParts(const TokenParts &) = delete;
	TokenParts &operator=(const TokenParts &) = delete;
};
void token_split(const std::string &tok, TokenParts &tp);
