// Seams owned by the simulator: clock, allocator, entropy, stream I/O, jansson parse entry.
#pragma once
#include "common.hpp"
#include <atomic>

// ---------------------------------------------------------------- clock (S1)
struct SimClock {
	int64_t base = 1700000000; // simulated "now"
	int64_t skew = 0;          // skew of the party currently running
	int64_t tick_every = 0;    // if >0: every n-th read of time() advances base by 1s
	uint64_t reads = 0;
	uint64_t covered = 0; // simulated seconds moved over (abs sum)
	int64_t now() const { return base + skew; }
	void advance(int64_t dt)
	{
		base += dt;
		covered += (uint64_t)(dt < 0 ? -dt : dt);
	}
	void jump(int64_t t)
	{
		int64_t d = t - base;
		covered += (uint64_t)(d < 0 ? -d : d);
		base = t;
	}
	void reset()
	{
		base = 1700000000;
		skew = 0;
		tick_every = 0;
		reads = 0;
		covered = 0;
	}
};
extern SimClock g_clock;

// ---------------------------------------------------------------- allocator (S2)
struct ParseRecord { // the jansson parse call during which an injected failure fell
	bool valid = false;
	std::string bytes;
	size_t flags = 0;
	uint64_t k_rel = 0; // index of the failed request relative to parser entry (1-based)
	uint64_t delta = 0; // a second request this far behind also fails (pair mode), 0 = none
	bool from = false;  // every later request fails too
	std::string entry;
};

struct DumpRecord { // the json_dumps call during which an injected failure fell
	bool valid = false;
	std::string text; // what the same dump returns without a fault
	size_t flags = 0;
	uint64_t k_rel = 0;
	uint64_t delta = 0;
	bool from = false;
};

struct SimAlloc {
	bool installed = false;
	bool thread_mode = false; // C18: only atomic counters, no side table
	bool reuse = false;       // hand a freed block straight back to the next request of the same size (LIFO), as a
	                          // production allocator would; off by default because it blinds ASan to use-after-free
	// fault window (armed only between entry to and return from a library call)
	bool armed = false;
	int64_t fail_at = 0;     // k-th request in this window returns NULL (1-based); 0 = none
	int64_t fail_at2 = 0;    // a second failing request in the same window (pairs of faults); 0 = none
	bool fail_from = false;  // every request from k on fails
	uint64_t win_reqs = 0;   // requests seen in the current window
	uint64_t fired = 0;      // faults fired in the current window
	uint64_t total_fired = 0;
	uint64_t total_reqs = 0;
	uint64_t foreign_frees = 0; // the installed free function was handed a pointer the installed malloc never returned
	// canary mode (per-run knob): every block gets CANARY_BYTES guard bytes behind it, checked when the block
	// comes back and at the end of the run. ASan cannot see a write made by an uninstrumented library
	// (libcrypto, gnutls, jansson) into a block libjwt sized; the guard bytes can.
	// injected failures never land inside jansson's parser or serializer (their request index is handed on to the next
	// request outside): jansson 2.14 aborts on an assertion or corrupts its buffer when its lexer cannot grow a token
	// buffer, which C17 records as a known finding and every other profile has to stay clear of
	bool spare_jansson = false;
	bool canary = false;
	uint64_t canary_hits = 0;
	size_t canary_block = 0, canary_off = 0; // first hit: block size, offset of the first damaged byte past the end
	void check_live_canaries();
	// parse tracking
	int in_parse = 0;
	uint64_t parse_reqs = 0;
	std::string parse_bytes;
	size_t parse_flags = 0;
	const char *parse_entry = "";
	ParseRecord last_parse_fault;
	uint64_t fired_in_parse = 0;
	uint64_t fired_in_dump = 0; // faults fired while json_dumps was running
	// dump tracking (json_dumps)
	int in_dump = 0;
	uint64_t dump_reqs = 0;
	std::string dump_text;
	bool dump_text_valid = false;
	size_t dump_flags = 0;
	DumpRecord last_dump_fault;

	uint64_t live_blocks() const;
	uint64_t live_bytes() const;
	void reset_run(); // forget live table (after reporting), counters
};
extern SimAlloc g_alloc;
extern std::atomic<long> g_live_atomic;

void sim_alloc_install();              // jwt_set_alloc(sim_malloc, sim_free)
extern "C" void *sim_malloc(size_t n);
extern "C" void sim_free(void *p);
void sim_harness_free(void *p);        // free memory handed out by libjwt/jansson to the harness

// Arms the fault window for the duration of one library call.
struct Armed {
	Armed(int64_t fail_at = 0, bool from = false, int64_t fail_at2 = 0)
	{
		g_alloc.armed = true;
		g_alloc.fail_at = fail_at;
		g_alloc.fail_at2 = fail_at2;
		g_alloc.fail_from = from;
		g_alloc.win_reqs = 0;
		g_alloc.fired = 0;
	}
	~Armed()
	{
		g_alloc.armed = false;
		g_alloc.fail_at = 0;
		g_alloc.fail_at2 = 0;
		g_alloc.fail_from = false;
	}
	uint64_t reqs() const { return g_alloc.win_reqs; }
	uint64_t fired() const { return g_alloc.fired; }
};

// yield hook for the thread scheduler (C18); called at every allocator request
extern void (*g_yield_hook)(void);

// ---------------------------------------------------------------- entropy (S5)
void sim_entropy_install();             // RAND_set_rand_method + getrandom/getentropy overrides
void sim_entropy_point(uint64_t root);  // re-point the calling thread's stream
uint64_t sim_entropy_drawn();           // bytes drawn on this thread since last re-point

// Runs fn on a fresh pthread with the entropy stream pointed at `root` (GnuTLS keeps a
// per-thread DRBG; a new thread gets a new one seeded from our getrandom).
void run_isolated(uint64_t root, const std::function<void()> &fn);

// ---------------------------------------------------------------- stream I/O (S4)
struct StreamPolicy {
	int64_t chunk = 0;    // max bytes per read callback (0 = whatever is asked)
	bool chunk_random = false;
	uint64_t chunk_seed = 0;
	int64_t eof_at = -1;  // deliver only the first eof_at bytes (torn file)
	int64_t eio_at = -1;  // fail with EIO once this many bytes were delivered
};
struct StreamState {
	std::string data;
	StreamPolicy pol;
	size_t pos = 0;
	uint64_t calls = 0;
	uint64_t short_reads = 0;
	bool eio_fired = false;
	bool eof_seen = false;
	Rng rng{1};
	std::string delivered; // bytes that actually reached the reader
};
FILE *sim_fopen(StreamState *st);

// per-run scratch directory (created on demand under /verif/.build/scratch/<pid>)
std::string sim_scratch_dir();
void sim_scratch_cleanup();

// ---------------------------------------------------------------- global reset between runs
void sim_reset_run();
