#include "seams.hpp"
#include <unordered_map>
#include <pthread.h>
#include <dlfcn.h>
#include <errno.h>
#include <unistd.h>
#include <sys/stat.h>
#include <sys/types.h>
#include <dirent.h>
#include <openssl/rand.h>
#include <openssl/err.h>
#include <sys/syscall.h>
#include <sys/time.h>
#include <time.h>

// ================================================================ clock
SimClock g_clock;

extern "C" time_t time(time_t *t)
{
	// Not atomic on purpose: in thread mode nobody writes the clock.
	if (g_clock.tick_every > 0 && !g_alloc.thread_mode) {
		g_clock.reads++;
		if (g_clock.reads % (uint64_t)g_clock.tick_every == 0)
			g_clock.advance(1);
	}
	time_t v = (time_t)g_clock.now();
	if (t)
		*t = v;
	return v;
}

// GnuTLS keys the ChaCha nonce of every freshly initialised per-thread DRBG with
// clock_gettime(CLOCK_REALTIME) (tv_sec), so the wall clock is a source of nondeterminism for
// its signatures. Every real-time clock therefore reads the simulated instant; the other
// clocks (the harness itself uses CLOCK_MONOTONIC for budgets) go to the kernel.
extern "C" int clock_gettime(clockid_t id, struct timespec *ts)
{
	if (id == CLOCK_REALTIME || id == CLOCK_REALTIME_COARSE) {
		if (ts) {
			ts->tv_sec = (time_t)g_clock.now();
			ts->tv_nsec = 0;
		}
		return 0;
	}
	return (int)syscall(SYS_clock_gettime, id, ts);
}

extern "C" int gettimeofday(struct timeval *tv, void *tz)
{
	(void)tz;
	if (tv) {
		tv->tv_sec = (time_t)g_clock.now();
		tv->tv_usec = 0;
	}
	return 0;
}

// ================================================================ allocator
SimAlloc g_alloc;
std::atomic<long> g_live_atomic{0};
void (*g_yield_hook)(void) = nullptr;

struct BlockInfo {
	size_t size;
	uint64_t serial;
};
static std::unordered_map<void *, BlockInfo> *g_live;
static uint64_t g_live_bytes;
static std::unordered_map<size_t, std::vector<void *>> *g_recycle; // reuse mode: size -> freed blocks (LIFO)

static const size_t CANARY_BYTES = 16;
static const unsigned char CANARY_FILL = 0xC5;
static void canary_check(void *p, size_t sz)
{
	const unsigned char *q = (const unsigned char *)p + sz;
	for (size_t i = 0; i < CANARY_BYTES; i++)
		if (q[i] != CANARY_FILL) {
			if (!g_alloc.canary_hits) {
				g_alloc.canary_block = sz;
				g_alloc.canary_off = i;
			}
			g_alloc.canary_hits++;
			return;
		}
}
void SimAlloc::check_live_canaries()
{
	if (!canary || thread_mode || !g_live)
		return;
	for (auto &kv : *g_live)
		canary_check(kv.first, kv.second.size);
}

static void recycle_flush()
{
	if (!g_recycle)
		return;
	for (auto &kv : *g_recycle)
		for (void *p : kv.second)
			free(p);
	g_recycle->clear();
}

uint64_t SimAlloc::live_blocks() const
{
	if (thread_mode)
		return (uint64_t)g_live_atomic.load(std::memory_order_relaxed);
	return g_live ? g_live->size() : 0;
}
uint64_t SimAlloc::live_bytes() const
{
	return g_live_bytes;
}

void SimAlloc::reset_run()
{
	if (g_live) {
		// Blocks still live belong to a finished run (a leak already reported); release them
		// so that a long-lived worker does not accumulate them.
		for (auto &kv : *g_live)
			free(kv.first);
		g_live->clear();
	}
	recycle_flush();
	reuse = false;
	g_live_bytes = 0;
	g_live_atomic.store(0);
	armed = false;
	fail_at = 0;
	fail_at2 = 0;
	fail_from = false;
	win_reqs = 0;
	fired = 0;
	total_fired = 0;
	total_reqs = 0;
	foreign_frees = 0;
	spare_jansson = false;
	canary = false;
	canary_hits = 0;
	canary_block = canary_off = 0;
	in_parse = 0;
	parse_reqs = 0;
	fired_in_parse = 0;
	fired_in_dump = 0;
	last_parse_fault = ParseRecord();
	in_dump = 0;
	dump_reqs = 0;
	dump_text_valid = false;
	last_dump_fault = DumpRecord();
}

extern "C" void *sim_malloc(size_t n)
{
	if (g_alloc.thread_mode) {
		if (g_yield_hook)
			g_yield_hook();
		void *p = malloc(n ? n : 1);
		if (p)
			g_live_atomic.fetch_add(1, std::memory_order_relaxed);
		return p;
	}
	g_alloc.total_reqs++;
	if (g_alloc.in_parse)
		g_alloc.parse_reqs++;
	if (g_alloc.in_dump)
		g_alloc.dump_reqs++;
	if (g_alloc.armed && g_alloc.spare_jansson && (g_alloc.in_parse || g_alloc.in_dump)) {
		// not counted: the window's request indices run over the requests made outside jansson's parser and serializer
	} else if (g_alloc.armed) {
		g_alloc.win_reqs++;
		if (g_alloc.fail_at > 0 &&
		    ((int64_t)g_alloc.win_reqs == g_alloc.fail_at || (g_alloc.fail_at2 > 0 && (int64_t)g_alloc.win_reqs == g_alloc.fail_at2) ||
		     (g_alloc.fail_from && (int64_t)g_alloc.win_reqs > g_alloc.fail_at))) {
			g_alloc.fired++;
			g_alloc.total_fired++;
			if (g_alloc.in_dump)
				g_alloc.fired_in_dump++;
			if (g_alloc.in_dump && !g_alloc.last_dump_fault.valid && g_alloc.dump_text_valid) {
				DumpRecord &d = g_alloc.last_dump_fault;
				d.valid = true;
				d.text = g_alloc.dump_text;
				d.flags = g_alloc.dump_flags;
				d.k_rel = g_alloc.dump_reqs;
				d.from = g_alloc.fail_from;
				d.delta = g_alloc.fail_at2 > (int64_t)g_alloc.win_reqs ? (uint64_t)(g_alloc.fail_at2 - (int64_t)g_alloc.win_reqs) : 0;
			}
			if (g_alloc.in_parse) {
				g_alloc.fired_in_parse++;
				if (!g_alloc.last_parse_fault.valid) {
					ParseRecord &r = g_alloc.last_parse_fault;
					r.valid = true;
					r.bytes = g_alloc.parse_bytes;
					r.flags = g_alloc.parse_flags;
					r.k_rel = g_alloc.parse_reqs;
					r.from = g_alloc.fail_from;
					r.delta = g_alloc.fail_at2 > (int64_t)g_alloc.win_reqs ? (uint64_t)(g_alloc.fail_at2 - (int64_t)g_alloc.win_reqs) : 0;
					r.entry = g_alloc.parse_entry;
				}
			}
			return NULL;
		}
	}
	void *p = NULL;
	if (g_alloc.reuse && g_recycle) {
		auto it = g_recycle->find(n);
		if (it != g_recycle->end() && !it->second.empty()) {
			p = it->second.back();
			it->second.pop_back();
		}
	}
	if (!p)
		p = malloc(g_alloc.canary ? n + CANARY_BYTES : (n ? n : 1));
	if (!p)
		return NULL;
	if (g_alloc.canary)
		memset((unsigned char *)p + n, CANARY_FILL, CANARY_BYTES);
	if (!g_live)
		g_live = new std::unordered_map<void *, BlockInfo>();
	(*g_live)[p] = BlockInfo{n, g_alloc.total_reqs};
	g_live_bytes += n;
	return p;
}

extern "C" void sim_free(void *p)
{
	if (!p)
		return;
	if (g_alloc.thread_mode) {
		g_live_atomic.fetch_sub(1, std::memory_order_relaxed);
		free(p);
		return;
	}
	if (g_live) {
		auto it = g_live->find(p);
		if (it != g_live->end()) {
			size_t sz = it->second.size;
			g_live_bytes -= sz;
			g_live->erase(it);
			if (g_alloc.canary)
				canary_check(p, sz);
			if (g_alloc.reuse) {
				if (!g_recycle)
					g_recycle = new std::unordered_map<size_t, std::vector<void *>>();
				memset(p, 0xdd, sz);
				(*g_recycle)[sz].push_back(p);
				return;
			}
		}
		else if (g_alloc.installed) {
			// A pointer this allocator never handed out (or already got back): counted, and reported by
			// the per-run monitor; free() (ASan) still judges it.
			g_alloc.foreign_frees++;
		}
	}
	free(p);
}

void sim_harness_free(void *p)
{
	sim_free(p);
}

void sim_alloc_install()
{
	if (g_alloc.installed)
		return;
	jwt_set_alloc(sim_malloc, sim_free);
	g_alloc.installed = true;
}

// ---------------------------------------------------------------- jansson parse entry points
// Defined here so that libjwt's (and the harness's) calls land in these wrappers; the real
// functions are reached through RTLD_NEXT. They only record where a parse starts and ends so
// that an injected allocation failure can be attributed to "inside a jansson parse" and
// reproduced against jansson alone (DESIGN C17).
typedef json_t *(*loadb_t)(const char *, size_t, size_t, json_error_t *);
typedef json_t *(*loads_t)(const char *, size_t, json_error_t *);
typedef json_t *(*loadf_t)(FILE *, size_t, json_error_t *);
typedef json_t *(*loadfile_t)(const char *, size_t, json_error_t *);

static void *real_sym(const char *name)
{
	void *p = dlsym(RTLD_NEXT, name);
	if (!p) {
		fprintf(stderr, "jwtsim: cannot resolve %s\n", name);
		_exit(2);
	}
	return p;
}

static StreamState *g_cur_stream;

struct ParseScope {
	bool outer;
	ParseScope(const char *entry, const char *bytes, size_t len, size_t flags)
	{
		outer = !g_alloc.thread_mode && g_alloc.in_parse == 0;
		if (g_alloc.thread_mode)
			return;
		if (outer) {
			g_alloc.parse_reqs = 0;
			g_alloc.parse_flags = flags;
			g_alloc.parse_entry = entry;
			if (g_alloc.armed && g_alloc.fail_at > 0 && bytes)
				g_alloc.parse_bytes.assign(bytes, len);
			else
				g_alloc.parse_bytes.clear();
		}
		g_alloc.in_parse++;
	}
	~ParseScope()
	{
		if (g_alloc.thread_mode)
			return;
		g_alloc.in_parse--;
	}
};

extern "C" json_t *json_loadb(const char *buffer, size_t buflen, size_t flags, json_error_t *error)
{
	static loadb_t real = (loadb_t)real_sym("json_loadb");
	ParseScope sc("json_loadb", buffer, buffer ? buflen : 0, flags);
	return real(buffer, buflen, flags, error);
}

extern "C" json_t *json_loads(const char *input, size_t flags, json_error_t *error)
{
	static loads_t real = (loads_t)real_sym("json_loads");
	ParseScope sc("json_loads", input, input ? strlen(input) : 0, flags);
	return real(input, flags, error);
}

extern "C" json_t *json_loadf(FILE *input, size_t flags, json_error_t *error)
{
	static loadf_t real = (loadf_t)real_sym("json_loadf");
	ParseScope sc("json_loadf", NULL, 0, flags);
	json_t *r = real(input, flags, error);
	if (sc.outer && g_alloc.last_parse_fault.valid && g_alloc.last_parse_fault.entry == "json_loadf" &&
	    g_cur_stream)
		g_alloc.last_parse_fault.bytes = g_cur_stream->delivered;
	return r;
}

extern "C" json_t *json_load_file(const char *path, size_t flags, json_error_t *error)
{
	static loadfile_t real = (loadfile_t)real_sym("json_load_file");
	ParseScope sc("json_load_file", NULL, 0, flags);
	json_t *r = real(path, flags, error);
	if (sc.outer && g_alloc.last_parse_fault.valid && path &&
	    (g_alloc.last_parse_fault.entry == "json_load_file")) {
		FILE *f = fopen(path, "rb");
		if (f) {
			std::string d;
			char buf[4096];
			size_t n;
			while ((n = fread(buf, 1, sizeof buf, f)) > 0)
				d.append(buf, n);
			fclose(f);
			g_alloc.last_parse_fault.bytes = d;
		}
	}
	return r;
}

// json_dumps: same idea as the parse wrappers. While a fault is armed the fault-free dump of the
// value is taken first (with injection suspended) so that the dump can be repeated against
// jansson alone.
typedef char *(*dumps_t)(const json_t *, size_t);

extern "C" char *json_dumps(const json_t *json, size_t flags)
{
	static dumps_t real = (dumps_t)real_sym("json_dumps");
	if (g_alloc.thread_mode || g_alloc.in_dump || !g_alloc.armed || g_alloc.fail_at <= 0 || !json)
		return real(json, flags);
	// suspend injection and accounting while copying
	bool armed = g_alloc.armed;
	uint64_t win = g_alloc.win_reqs, tot = g_alloc.total_reqs;
	g_alloc.armed = false;
	char *clean = real(json, flags);
	g_alloc.dump_text_valid = clean != NULL;
	g_alloc.dump_text = clean ? clean : "";
	sim_free(clean);
	g_alloc.armed = armed;
	g_alloc.win_reqs = win;
	g_alloc.total_reqs = tot;
	g_alloc.dump_flags = flags;
	g_alloc.dump_reqs = 0;
	g_alloc.in_dump++;
	char *r = real(json, flags);
	g_alloc.in_dump--;
	return r;
}

// ================================================================ entropy
static thread_local uint64_t t_ent_root = 0x1234;
static thread_local uint64_t t_ent_ctr = 0;
static thread_local uint64_t t_ent_drawn = 0;

static void ent_fill(void *buf, size_t len)
{
	unsigned char *p = (unsigned char *)buf;
	while (len) {
		uint64_t v = mix64(t_ent_root, t_ent_ctr++);
		size_t k = len < 8 ? len : 8;
		memcpy(p, &v, k);
		p += k;
		len -= k;
	}
}

void sim_entropy_point(uint64_t root)
{
	t_ent_root = root;
	t_ent_ctr = 0;
	t_ent_drawn = 0;
}

uint64_t sim_entropy_drawn()
{
	return t_ent_drawn;
}

extern "C" ssize_t getrandom(void *buf, size_t len, unsigned int flags)
{
	(void)flags;
	ent_fill(buf, len);
	t_ent_drawn += len;
	return (ssize_t)len;
}

extern "C" int getentropy(void *buf, size_t len)
{
	ent_fill(buf, len);
	t_ent_drawn += len;
	return 0;
}

static int r_seed(const void *, int)
{
	return 1;
}
static int r_bytes(unsigned char *buf, int num)
{
	ent_fill(buf, (size_t)num);
	t_ent_drawn += (uint64_t)num;
	return 1;
}
static void r_cleanup(void) {}
static int r_add(const void *, int, double)
{
	return 1;
}
static int r_status(void)
{
	return 1;
}
static RAND_METHOD g_rand_meth = {r_seed, r_bytes, r_cleanup, r_add, r_bytes, r_status};

void sim_entropy_install()
{
#pragma clang diagnostic push
#pragma clang diagnostic ignored "-Wdeprecated-declarations"
	RAND_set_rand_method(&g_rand_meth);
#pragma clang diagnostic pop
}

struct IsoArg {
	uint64_t root;
	const std::function<void()> *fn;
};

static void *iso_main(void *a)
{
	IsoArg *ia = (IsoArg *)a;
	sim_entropy_point(ia->root);
	(*ia->fn)();
	return NULL;
}

void run_isolated(uint64_t root, const std::function<void()> &fn)
{
	IsoArg ia{root, &fn};
	pthread_t th;
	pthread_attr_t at;
	pthread_attr_init(&at);
	pthread_attr_setstacksize(&at, 4u << 20);
	if (pthread_create(&th, &at, iso_main, &ia) != 0) {
		fprintf(stderr, "jwtsim: pthread_create failed\n");
		_exit(2);
	}
	pthread_attr_destroy(&at);
	pthread_join(th, NULL);
}

// ================================================================ stream I/O
static ssize_t ck_read(void *cookie, char *buf, size_t size)
{
	StreamState *st = (StreamState *)cookie;
	st->calls++;
	size_t limit = st->data.size();
	if (st->pol.eof_at >= 0 && (size_t)st->pol.eof_at < limit)
		limit = (size_t)st->pol.eof_at;
	if (st->pol.eio_at >= 0 && st->pos >= (size_t)st->pol.eio_at && !st->eio_fired) {
		st->eio_fired = true;
		errno = EIO;
		return -1;
	}
	if (st->eio_fired) {
		errno = EIO;
		return -1;
	}
	if (st->pos >= limit) {
		st->eof_seen = true;
		return 0;
	}
	size_t n = limit - st->pos;
	if (n > size)
		n = size;
	size_t want = n;
	if (st->pol.chunk_random) {
		size_t c = 1 + (size_t)st->rng.below(st->pol.chunk > 0 ? (uint64_t)st->pol.chunk : 64);
		if (n > c)
			n = c;
	} else if (st->pol.chunk > 0 && n > (size_t)st->pol.chunk)
		n = (size_t)st->pol.chunk;
	if (st->pol.eio_at >= 0 && st->pos + n > (size_t)st->pol.eio_at)
		n = (size_t)st->pol.eio_at - st->pos;
	if (n == 0) { // eio boundary exactly here
		st->eio_fired = true;
		errno = EIO;
		return -1;
	}
	if (n < want)
		st->short_reads++;
	memcpy(buf, st->data.data() + st->pos, n);
	st->delivered.append(st->data.data() + st->pos, n);
	st->pos += n;
	return (ssize_t)n;
}

static int ck_close(void *cookie)
{
	(void)cookie;
	if (g_cur_stream == (StreamState *)cookie)
		g_cur_stream = NULL;
	return 0;
}

FILE *sim_fopen(StreamState *st)
{
	cookie_io_functions_t io = {ck_read, NULL, NULL, ck_close};
	st->rng = Rng(st->pol.chunk_seed ? st->pol.chunk_seed : 1);
	g_cur_stream = st;
	return fopencookie(st, "r", io);
}

static std::string g_scratch;

std::string sim_scratch_dir()
{
	if (g_scratch.empty()) {
		const char *base = getenv("VERIF_SCRATCH");
		std::string b = base ? base : "/verif/.build/scratch";
		mkdir(b.c_str(), 0755);
		g_scratch = strf("%s/%d", b.c_str(), (int)getpid());
		mkdir(g_scratch.c_str(), 0755);
	}
	return g_scratch;
}

void sim_scratch_cleanup()
{
	if (g_scratch.empty())
		return;
	DIR *d = opendir(g_scratch.c_str());
	if (d) {
		struct dirent *e;
		while ((e = readdir(d))) {
			if (!strcmp(e->d_name, ".") || !strcmp(e->d_name, ".."))
				continue;
			std::string p = g_scratch + "/" + e->d_name;
			if (unlink(p.c_str()) != 0)
				rmdir(p.c_str());
		}
		closedir(d);
	}
	rmdir(g_scratch.c_str());
	g_scratch.clear();
}

// ================================================================ reset
void sim_reset_run()
{
	// thread-local library state must not travel from one run to the next
	ERR_clear_error();
	g_clock.reset();
	g_alloc.reset_run();
	jwt_set_crypto_ops("openssl");
	unsetenv("JWT_CRYPTO");
	sim_entropy_point(0x1234);
}
