#include "registry.hpp"

extern const Profile PROFILE_CLAIMS;

static const Profile *PROFILES[] = {
	&PROFILE_CLAIMS,
};

const Profile *find_profile(const std::string &name)
{
	for (auto p : PROFILES)
		if (name == p->name)
			return p;
	return NULL;
}

static const std::vector<const char *> REAL = {
	"libjwt (all of libjwt/*.c, OpenSSL and GnuTLS providers) rebuilt from /repo's working tree with ASan+UBSan",
	"jansson 2.14, OpenSSL, GnuTLS (system shared libraries, uninstrumented)",
	"malloc underneath the simulator's allocator",
};
static const std::vector<const char *> STUB = {
	"clock: time() defined by jwtsim (simulated instant, per-party skew, jumps, tick-on-read knob)",
	"allocator: jwt_set_alloc wrapper with live-block accounting and attached fault injection",
	"entropy: RAND method + getrandom/getentropy fed from the plan's per-step PRNG stream",
	"tokens under test are assembled by an independent reference (own base64url, OpenSSL EVP signing)",
};

static const std::vector<CheckDef> CHECKS = {
	{"C04",
	 {"claims"},
	 12000,
	 200000,
	 "exploration",
	 "seeded histories of jwt_checker_claim_set/claim_del/time_leeway interleaved with clock moves and verifies of "
	 "reference-built pristine tokens (signed HS256 and unsigned); a run is non-trivial when it has >=1 configuration "
	 "call and >=1 verify; distinct = distinct hashes of (signedness, exp/nbf mode and delta or wrong-type kind, "
	 "iss/sub/aud kind, checks on/off, expectations set, verdict, model failure set) per verify",
	 {"the claims model is written from the property statement (exp > now - leeway, nbf <= now + leeway, negative "
	  "leeway switches off); expected strings are valid UTF-8",
	  "signature validity of signed tokens is by reference HMAC (OpenSSL HMAC called directly)"},
	 REAL,
	 STUB},
};

const std::vector<CheckDef> &all_checks()
{
	return CHECKS;
}

const CheckDef *find_check(const std::string &property)
{
	for (auto &c : CHECKS)
		if (property == c.property)
			return &c;
	return NULL;
}
