// Profiles "jwksdoc" (C07) and "keyring" (C16): JWK/JWKS documents damaged in flight and read
// through every entry point (strings, faulty streams, torn files); keyring operation histories
// against a list model.
#include "lib.hpp"
#include <unistd.h>
#include <errno.h>
#include <sys/stat.h>

// ---------------------------------------------------------------- document generation
static const char *KID_POOL[] = {"k1", "k2", "k3", "dup", "dup", "", "K1", "k1 "};

static KeyRef doc_key(Rng &r, int kind)
{
	switch (kind % 5) {
	case 0: {
		return key_gen_oct(r, (size_t)r.pick(std::vector<int>{32, 48, 64, 16, 1}));
	}
	case 1:
		return key_gen_ec(r.pick(std::vector<std::string>{"P-256", "P-384", "P-521", "secp256k1"}));
	case 2:
		return key_gen_okp(r.chance(1, 2) ? "Ed25519" : "Ed448");
	case 3:
		return key_rsa_pool(2048, (int)r.below(2));
	default:
		return key_rsa_pool(r.chance(1, 2) ? 1024 : 3072, (int)r.below(2));
	}
}

// A well-formed JWK with a marker member (ignored by libjwt) telling the model what to expect.
static json_t *good_jwk(Rng &r, int kind, int kidsel)
{
	KeyRef k = doc_key(r, kind);
	JwkOpts o;
	o.priv = r.chance(1, 2);
	if (r.chance(1, 2)) {
		o.has_alg = true;
		o.alg = k->kty == K_OCT ? "HS256" : k->kty == K_RSA ? (r.chance(1, 2) ? "RS256" : "PS384") : k->kty == K_OKP ? "EdDSA" : "ES256";
	}
	if (kidsel >= 0) {
		o.has_kid = true;
		o.kid = KID_POOL[(size_t)kidsel % ARRAY_LEN(KID_POOL)];
	}
	if (r.chance(1, 3))
		o.use = "sig";
	if (r.chance(1, 3))
		o.key_ops = {"sign", "verify"};
	json_t *j = jwk_export_json(*k, o);
	json_object_set_new(j, "vf_expect", json_string("good"));
	return j;
}

static const char *BAD_JWKS[] = {
	"{\"kid\":\"%s\",\"vf_expect\":\"bad\"}",                                              // no kty
	"{\"kty\":\"XYZ\",\"kid\":\"%s\",\"vf_expect\":\"bad\"}",                            // unknown kty
	"{\"kty\":\"oct\",\"kid\":\"%s\",\"vf_expect\":\"bad\"}",                            // oct without k
	"{\"kty\":\"EC\",\"crv\":\"P-256\",\"y\":\"AAAA\",\"kid\":\"%s\",\"vf_expect\":\"bad\"}", // EC missing x
	"{\"kty\":\"RSA\",\"n\":\"!!!!\",\"e\":\"AQAB\",\"kid\":\"%s\",\"vf_expect\":\"bad\"}", // bad base64
	"{\"kty\":\"OKP\",\"crv\":\"Ed999\",\"x\":\"AAAA\",\"kid\":\"%s\",\"vf_expect\":\"bad\"}",
	"{\"kty\":5,\"kid\":\"%s\",\"vf_expect\":\"bad\"}",
	"{\"kty\":\"RSA\",\"e\":\"AQAB\",\"kid\":\"%s\",\"vf_expect\":\"bad\"}",
};

static json_t *bad_jwk(Rng &r, int kidsel)
{
	std::string kid = kidsel >= 0 ? KID_POOL[(size_t)kidsel % ARRAY_LEN(KID_POOL)] : "nokid";
	if (r.chance(1, 4)) {
		// complete, valid key material and an alg member that is not a string: the provider has built its key object
		// by the time the item is flagged
		KeyRef k = doc_key(r, 1 + (int)r.below(4));
		JwkOpts o;
		o.priv = r.chance(1, 2);
		o.has_alg = true;
		o.alg_raw = r.chance(1, 2) ? "256" : "true";
		if (kidsel >= 0) {
			o.has_kid = true;
			o.kid = kid;
		}
		json_t *j = jwk_export_json(*k, o);
		json_object_set_new(j, "vf_expect", json_string("badalg"));
		return j;
	}
	std::string t = strf(BAD_JWKS[r.below(ARRAY_LEN(BAD_JWKS))], kid.c_str());
	json_t *j = json_loads(t.c_str(), 0, NULL);
	if (kidsel < 0)
		json_object_del(j, "kid");
	return j;
}

// structural damage of one member of a JWK: absent / null / number / bool / array / object /
// empty string / not base64url / wrong length
static void damage_member(Rng &r, json_t *jwk, int sel)
{
	static const char *members[] = {"kty", "alg", "kid", "use", "key_ops", "crv", "k", "n", "e", "d", "p", "q", "dp", "dq", "qi", "x", "y"};
	std::vector<const char *> present;
	for (auto m : members)
		if (json_object_get(jwk, m))
			present.push_back(m);
	const char *m = (!present.empty() && r.chance(4, 5)) ? r.pick(present) : r.pick(members);
	json_t *old = json_object_get(jwk, m);
	switch (sel % 11) {
	case 0:
		json_object_del(jwk, m);
		break;
	case 1:
		json_object_set_new(jwk, m, json_null());
		break;
	case 2:
		json_object_set_new(jwk, m, json_integer(r.range(-1, 100000)));
		break;
	case 3:
		json_object_set_new(jwk, m, json_boolean(r.below(2)));
		break;
	case 4: {
		json_t *a = json_array();
		if (old && r.chance(1, 2))
			json_array_append(a, old);
		json_object_set_new(jwk, m, a);
		break;
	}
	case 5: {
		json_t *o = json_object();
		if (old)
			json_object_set(o, "v", old);
		json_object_set_new(jwk, m, o);
		break;
	}
	case 6:
		json_object_set_new(jwk, m, json_string(""));
		break;
	case 7:
		// (the text of some members is quoted in the item's error message: printf conversions, very long texts)
		json_object_set_new(jwk, m, json_string(r.pick(std::vector<std::string>{"!!!!", "A", "AAAAA", "not base64 at all", "AA=A", "\xc3\xa9\xc3\xa9", "AAA*", "%s%s%s%s%s%n", "Ed%n25519", "%x%x%x%x%999999d",
											std::string(300, 'Z'), std::string(5000, '%'), "P-256%s"}).c_str()));
		break;
	case 8: { // wrong length: truncate or extend the base64 text
		if (old && json_is_string(old)) {
			std::string s = json_string_value(old);
			if (r.chance(1, 2) && s.size() > 4)
				s.resize(s.size() - (size_t)r.range(1, 4));
			else
				s += r.pick(std::vector<std::string>{"AAAA", "AA", "AAA", "AAAAAAAAAAAAAAAAAAAAAAAA"});
			json_object_set_new(jwk, m, json_string(s.c_str()));
		} else
			json_object_set_new(jwk, m, json_string("AAAA"));
		break;
	}
	case 9:
		json_object_set_new(jwk, m, json_real(1.5));
		break;
	default:
		json_object_set_new(jwk, m, json_string(r.pick(std::vector<std::string>{"oct", "RSA", "EC", "OKP", "P-256", "Ed25519", "HS256", "sig", "AQAB"}).c_str()));
	}
	// a damaged JWK: the model makes no prediction about error vs usable
	json_object_set_new(jwk, "vf_expect", json_string("any"));
}

struct DocSpec {
	int shape;   // 0 single good, 1 single bad, 2 keys set, 3 non-JSON, 4 empty keys array, 5 non-object JSON, 6 keys not an array, 7 single damaged
	int n;       // elements for shape 2
	int pattern; // bit i: element i is bad; second pattern: element is damaged / non-object
	int pattern2;
	int kidbase;
	int damage;  // byte damage count
	uint64_t seed;
};

static std::string build_doc(const DocSpec &d)
{
	Rng r(mix64(0xd0c5, d.seed));
	json_t *doc = NULL;
	std::string text;
	switch (d.shape % 8) {
	case 0:
		doc = good_jwk(r, (int)r.below(5), d.kidbase % 9 == 8 ? -1 : d.kidbase);
		break;
	case 1:
		doc = bad_jwk(r, d.kidbase % 9 == 8 ? -1 : d.kidbase);
		break;
	case 2: {
		doc = json_object();
		json_t *a = json_array();
		for (int i = 0; i < d.n; i++) {
			int kid = (d.kidbase + i * 3) % 9 == 8 ? -1 : (d.kidbase + i * 3);
			json_t *e;
			if (d.pattern2 & (1 << i)) {
				if (r.chance(1, 2)) {
					e = good_jwk(r, (int)r.below(5), kid);
					damage_member(r, e, (int)r.below(11));
				} else
					e = json_loads(r.pick(std::vector<std::string>{"5", "\"str\"", "null", "[]", "[{\"kty\":\"oct\"}]", "true"}).c_str(), JSON_DECODE_ANY, NULL);
			} else if (d.pattern & (1 << i))
				e = bad_jwk(r, kid);
			else
				e = good_jwk(r, (int)r.below(5), kid);
			json_array_append_new(a, e);
		}
		json_object_set_new(doc, "keys", a);
		if (r.chance(1, 4))
			json_object_set_new(doc, "other", json_string("ignored"));
		break;
	}
	case 3:
		text = r.pick(std::vector<std::string>{"", "{", "not json", "{\"keys\":[", "{\"kty\":\"oct\",}", "\x01\x02", "{\"keys\":[{}]} trailing", "[1,2", "{'a':1}"});
		break;
	case 4:
		text = "{\"keys\":[]}";
		break;
	case 5:
		text = r.pick(std::vector<std::string>{"5", "[]", "\"x\"", "null", "true", "[{\"kty\":\"oct\",\"k\":\"AAAA\"}]", "1.5"});
		break;
	case 6:
		text = r.pick(std::vector<std::string>{"{\"keys\":5}", "{\"keys\":{\"kty\":\"oct\"}}", "{\"keys\":null}", "{\"keys\":\"x\"}"});
		break;
	default:
		doc = good_jwk(r, (int)r.below(5), d.kidbase % 9 == 8 ? -1 : d.kidbase);
		for (int i = 0, n = (int)r.range(1, 2); i < n; i++)
			damage_member(r, doc, (int)r.below(11));
	}
	if (doc) {
		char *s = json_dumps(doc, (r.chance(1, 3) ? JSON_INDENT(2) : JSON_COMPACT) | JSON_ENCODE_ANY);
		text = s ? s : "";
		sim_harness_free(s);
		json_decref(doc);
	}
	// byte-level damage in flight
	for (int i = 0; i < d.damage && !text.empty(); i++) {
		size_t p = (size_t)r.below(text.size());
		switch (r.below(4)) {
		case 0:
			text[p] = (char)(text[p] ^ (1 << r.below(7)));
			break;
		case 1:
			text.erase(p, 1);
			break;
		case 2:
			text.insert(p, 1, (char)r.range(1, 255));
			break;
		default:
			text[p] = "{}[],:\"\\"[r.below(8)];
		}
	}
	return text;
}

static DocSpec spec_from_step(const Step &s)
{
	DocSpec d;
	d.shape = (int)s.I("shape");
	d.n = (int)(s.I("n") % 6);
	d.pattern = (int)s.I("pattern");
	d.pattern2 = (int)s.I("pattern2");
	d.kidbase = (int)(s.I("kid") % 9);
	d.damage = (int)s.I("damage");
	d.seed = (uint64_t)s.I("seed");
	return d;
}

static Step gen_load(Rng &r, bool for_keyring)
{
	Step s("LOAD");
	if (for_keyring)
		s.set("shape", (int64_t)r.pick(std::vector<int>{0, 0, 1, 2, 2, 2, 3, 4}));
	else
		s.set("shape", (int64_t)r.pick(std::vector<int>{0, 1, 2, 2, 2, 3, 4, 5, 6, 7, 7, 7}));
	s.set("n", r.range(0, 5));
	s.set("pattern", (int64_t)r.below(32));
	s.set("pattern2", for_keyring ? (int64_t)0 : (int64_t)(r.chance(1, 2) ? r.below(32) : 0));
	s.set("kid", (int64_t)r.below(9));
	s.set("damage", for_keyring ? (int64_t)0 : (int64_t)(r.chance(1, 4) ? r.range(1, 3) : 0));
	s.set("seed", (int64_t)r.below(1u << 30));
	int via = (int)r.pick(std::vector<int>{0, 0, 1, 1, 2, 2, 2, 3, 3, 4, 5});
	s.set("via", via); // 0 load, 1 load_strn, 2 fromfp, 3 fromfile, 4 create, 5 create_strn
	if (via == 1 || via == 5) {
		s.set("lenmode", r.range(0, 3)); // 0 exact, 1 shorter, 2 exact without NUL after it, 3 zero
		s.set("cut", (int64_t)r.below(100000));
	}
	if (via == 2) {
		s.set("chunk", (int64_t)r.pick(std::vector<int>{0, 1, 2, 7, 4096, 0}));
		s.set("chunk_random", r.chance(1, 4) ? 1 : 0);
		int f = (int)r.below(for_keyring ? 8 : 4);
		if (f == 1)
			s.set("eof_at", (int64_t)r.below(100000));
		else if (f == 2)
			s.set("eio_at", (int64_t)r.below(100000));
	}
	if (via == 3) {
		s.set("filemode", (int64_t)r.pick(std::vector<int>{0, 0, 0, 1, 2, 3, 4})); // 0 intact, 1 missing, 2 empty, 3 truncated, 4 directory
		s.set("cut", (int64_t)r.below(100000));
	}
	return s;
}

// ---------------------------------------------------------------- model of one load
struct ItemModel {
	std::string kid;   // "" when absent / empty / not a string
	bool has_kid = false;
	int expect = 2;    // 0 good (must be usable), 1 bad (must be errored), 2 any
	int kty = -1;      // expected kty enum when the kty string is known, -1 otherwise
};

struct LoadModel {
	bool json_ok = false;
	bool count_dont_care = false; // "keys" present but not an array
	std::vector<ItemModel> items;
};

static ItemModel item_model(json_t *e)
{
	ItemModel m;
	if (!json_is_object(e)) {
		m.expect = 1; // not an object: no kty -> must be flagged
		return m;
	}
	json_t *kid = json_object_get(e, "kid");
	if (kid && json_is_string(kid) && json_string_length(kid) > 0 && strlen(json_string_value(kid)) == json_string_length(kid)) {
		m.has_kid = true;
		m.kid = json_string_value(kid);
	}
	json_t *x = json_object_get(e, "vf_expect");
	const char *xs = x && json_is_string(x) ? json_string_value(x) : "any";
	m.expect = !strcmp(xs, "good") ? 0 : !strcmp(xs, "bad") ? 1 : 2;
	if (!strcmp(xs, "badalg")) {
		// the defect of this element is its non-string alg member; damage in flight may have renamed or retyped it
		json_t *alg = json_object_get(e, "alg");
		m.expect = alg && !json_is_string(alg) && !json_is_null(alg) ? 1 : 2;
	}
	json_t *kty = json_object_get(e, "kty");
	if (kty && json_is_string(kty)) {
		const char *k = json_string_value(kty);
		m.kty = !strcmp(k, "EC") ? JWK_KEY_TYPE_EC : !strcmp(k, "RSA") ? JWK_KEY_TYPE_RSA : !strcmp(k, "OKP") ? JWK_KEY_TYPE_OKP : !strcmp(k, "oct") ? JWK_KEY_TYPE_OCT : -1;
		if (m.kty < 0)
			m.expect = 1; // unknown kty must be flagged
	} else
		m.expect = 1; // missing / non-string kty must be flagged
	return m;
}

static LoadModel load_model(const std::string &D)
{
	LoadModel lm;
	json_t *j = json_loadb(D.data(), D.size(), JSON_DECODE_ANY, NULL);
	if (!j)
		return lm;
	lm.json_ok = true;
	json_t *keys = json_is_object(j) ? json_object_get(j, "keys") : NULL;
	if (!keys)
		lm.items.push_back(item_model(j));
	else if (json_is_array(keys)) {
		size_t i;
		json_t *e;
		json_array_foreach(keys, i, e) lm.items.push_back(item_model(e));
	} else
		lm.count_dont_care = true;
	json_decref(j);
	return lm;
}

// ---------------------------------------------------------------- performing a load
struct LoadResult {
	jwk_set_t *set = nullptr;
	bool returned_null = false;
	std::string D;        // bytes that reached the parser
	bool parser_reached = true;
	std::string via;
	std::string faults;
	bool alloc_fired = false;
};

static LoadResult do_load(Ctx &ctx, jwk_set_t *set, const Step &s, const std::string &doc, bool create)
{
	LoadResult lr;
	int64_t fail_at = s.I("failalloc"); // one request of the installed allocator fails (never inside jansson's parser)
	int via = (int)s.I("via");
	if (create && via < 4)
		via = via == 0 ? 4 : via == 1 ? 5 : via; // create variants for the string entry points
	if (!create && via >= 4)
		via -= 4; // loading into an existing set
	switch (via) {
	case 0:
	case 4: {
		lr.via = via == 0 ? "jwks_load" : "jwks_create";
		lr.D = doc.substr(0, doc.find('\0'));
		Armed a(fail_at);
		lr.set = via == 0 ? jwks_load(set, doc.c_str()) : jwks_create(doc.c_str());
		lr.alloc_fired = a.fired() > 0;
		break;
	}
	case 1:
	case 5: {
		lr.via = via == 1 ? "jwks_load_strn" : "jwks_create_strn";
		size_t len = doc.size();
		int lm = (int)s.I("lenmode");
		if (lm == 1 && len > 0) {
			len = (size_t)((uint64_t)s.I("cut") % len);
			lr.faults = "short-length";
			ctx.count("fault:strn_length_shorter_than_text");
		} else if (lm == 3) {
			len = 0;
			lr.faults = "zero-length";
		}
		// no NUL after the buffer: copy into an exactly sized heap block so ASan sees any over-read
		char *buf = (char *)malloc(len ? len : 1);
		memcpy(buf, doc.data(), len);
		lr.D.assign(buf, len);
		{
			Armed a(fail_at);
			lr.set = via == 1 ? jwks_load_strn(set, buf, len) : jwks_create_strn(buf, len);
			lr.alloc_fired = a.fired() > 0;
		}
		free(buf);
		break;
	}
	case 2: {
		lr.via = create ? "jwks_create_fromfp" : "jwks_load_fromfp";
		StreamState st;
		st.data = doc;
		st.pol.chunk = s.I("chunk");
		st.pol.chunk_random = s.I("chunk_random") != 0;
		st.pol.chunk_seed = (uint64_t)s.I("seed") + 17;
		if (s.has("eof_at")) {
			st.pol.eof_at = (int64_t)((uint64_t)s.I("eof_at") % (doc.size() + 1));
			lr.faults = "torn-stream";
			ctx.count("fault:stream_eof_mid_document");
		}
		if (s.has("eio_at")) {
			st.pol.eio_at = (int64_t)((uint64_t)s.I("eio_at") % (doc.size() + 1));
			lr.faults = "eio";
		}
		FILE *f = sim_fopen(&st);
		{
			Armed a(fail_at);
			lr.set = create ? jwks_create_fromfp(f) : jwks_load_fromfp(set, f);
			lr.alloc_fired = a.fired() > 0;
		}
		fclose(f);
		lr.D = st.delivered;
		if (st.eio_fired)
			ctx.count("fault:stream_eio");
		if (st.short_reads)
			ctx.count("fault:stream_short_reads", st.short_reads);
		if (st.pol.chunk == 1)
			ctx.count("probe:stream_one_byte_reads");
		break;
	}
	default: {
		lr.via = create ? "jwks_create_fromfile" : "jwks_load_fromfile";
		std::string path = sim_scratch_dir() + strf("/jwks-%llu.json", (unsigned long long)s.uid);
		int fm = (int)s.I("filemode");
		unlink(path.c_str());
		rmdir(path.c_str());
		std::string content = doc;
		if (fm == 1) {
			lr.parser_reached = false;
			lr.faults = "missing-file";
			ctx.count("fault:file_missing");
		} else if (fm == 4) {
			mkdir(path.c_str(), 0755);
			lr.parser_reached = false;
			lr.faults = "is-directory";
			ctx.count("fault:file_is_directory");
		} else {
			if (fm == 2) {
				content.clear();
				lr.faults = "empty-file";
				ctx.count("fault:file_empty");
			} else if (fm == 3 && !content.empty()) {
				content.resize((size_t)((uint64_t)s.I("cut") % content.size()));
				lr.faults = "torn-file";
				ctx.count("fault:file_torn_write");
			}
			FILE *f = fopen(path.c_str(), "wb");
			if (f) {
				fwrite(content.data(), 1, content.size(), f);
				fclose(f);
			}
			lr.D = content;
		}
		{
			Armed a(fail_at);
			lr.set = create ? jwks_create_fromfile(path.c_str()) : jwks_load_fromfile(set, path.c_str());
			lr.alloc_fired = a.fired() > 0;
		}
		unlink(path.c_str());
		rmdir(path.c_str());
	}
	}
	lr.returned_null = lr.set == NULL;
	return lr;
}

static bool item_usable(const jwk_item_t *it)
{
	switch (jwks_item_kty(it)) {
	case JWK_KEY_TYPE_OCT: {
		const unsigned char *b = NULL;
		size_t l = 0;
		return jwks_item_key_oct(it, &b, &l) == 0 && b && l > 0;
	}
	case JWK_KEY_TYPE_RSA:
	case JWK_KEY_TYPE_EC:
	case JWK_KEY_TYPE_OKP:
		return jwks_item_pem(it) != NULL || jwks_item_key_bits(it) > 0;
	default:
		return false;
	}
}

// Check what a load added to the set against the model. Returns the number of new items.
static size_t check_load(Ctx &ctx, const char *prop, const LoadResult &lr, const LoadModel &lm, size_t count_before, bool had_error_before)
{
	jwk_set_t *set = lr.set;
	size_t count = jwks_item_count(set);
	size_t added = count >= count_before ? count - count_before : 0;
	std::string where = lr.via + (lr.faults.empty() ? "" : "+" + lr.faults);
	if (!lr.parser_reached || !lm.json_ok) {
		// not JSON (or nothing to read): the set carries an error with a message and gains no items
		if (!jwks_error(set))
			ctx.violation(prop, "nonjson-no-error", where, strf("%s of non-JSON input %s left jwks_error clear", lr.via.c_str(), show(lr.D, 120).c_str()));
		else if (!jwks_error_msg(set) || !*jwks_error_msg(set))
			ctx.violation("C14", "set-error-msg", where, "set error flagged with an empty message");
		if (count != count_before)
			ctx.violation(prop, "nonjson-gains-items", where, strf("%s of non-JSON input %s changed the item count %zu -> %zu", lr.via.c_str(), show(lr.D, 120).c_str(), count_before, count));
		return added;
	}
	if (lm.count_dont_care)
		return added;
	if (added != lm.items.size() || count < count_before) {
		ctx.violation(prop, "item-count", strf("%s:expected%zu:got%zu", where.c_str(), lm.items.size() > 3 ? (size_t)3 : lm.items.size(), added > 3 ? (size_t)3 : added),
			      strf("%s of a JSON document with %zu key(s) added %zu item(s) (count %zu -> %zu); doc=%s", lr.via.c_str(), lm.items.size(), added, count_before, count, show(lr.D, 300).c_str()));
		return added;
	}
	if (!had_error_before && jwks_error(set))
		ctx.violation(prop, "json-sets-error", where, strf("%s of valid JSON flagged a set error: %s", lr.via.c_str(), jwks_error_msg(set)));
	for (size_t i = 0; i < lm.items.size(); i++) {
		const jwk_item_t *it = jwks_item_get(set, count_before + i);
		const ItemModel &m = lm.items[i];
		if (!it) {
			ctx.violation(prop, "item-missing", where, strf("jwks_item_get(%zu) returned NULL although count is %zu", count_before + i, count));
			continue;
		}
		int err = jwks_item_error(it);
		const char *msg = jwks_item_error_msg(it);
		const char *kid = jwks_item_kid(it);
		// document order: the kid sequence of the new items is the document's
		if (!err && m.has_kid && (!kid || m.kid != kid))
			ctx.violation(prop, "item-order", where, strf("new item %zu has kid %s, the document's element %zu has kid %s", i, kid ? show(kid).c_str() : "(null)", i, show(m.kid).c_str()));
		if (!err && m.kty >= 0 && (int)jwks_item_kty(it) != m.kty)
			ctx.violation(prop, "item-kty", where, strf("new item %zu reports kty %d, the document's element %zu says %d", i, jwks_item_kty(it), i, m.kty));
		if (err) {
			if (!msg || !*msg)
				ctx.violation("C14", "item-error-msg", where, strf("item %zu flagged as bad with an empty message", i));
			if (!msg || !*msg)
				ctx.violation(prop, "item-error-empty-msg", where, strf("item %zu flagged as bad with an empty message", i));
			if (m.expect == 0)
				ctx.violation("C08", "good-jwk-flagged", where, strf("well-formed JWK element %zu flagged: %s", i, msg ? msg : ""));
		} else {
			if (!item_usable(it))
				ctx.violation(prop, "item-neither-error-nor-usable", strf("%s:kty%d", where.c_str(), (int)jwks_item_kty(it)),
					      strf("new item %zu reports no error but is not a usable key (kty %d, pem %s, bits %d); doc=%s", i, jwks_item_kty(it), jwks_item_pem(it) ? "set" : "NULL",
						   jwks_item_key_bits(it), show(lr.D, 300).c_str()));
			if (m.expect == 1)
				ctx.violation(prop, "bad-jwk-not-flagged", where, strf("element %zu (no/unknown kty or missing key material) was imported without error; doc=%s", i, show(lr.D, 300).c_str()));
		}
	}
	return added;
}

// ================================================================ jwksdoc (C07)
static void jwksdoc_gen(Rng &r, Plan &p, Tier tier, uint64_t index)
{
	p.cfg["reuse"] = Val((int64_t)(r.chance(1, 4) ? 1 : 0)); // allocator address reuse (see SimAlloc::reuse)
	(void)index;
	int n = (int)r.range(1, tier == QUICK ? 5 : 8);
	for (int i = 0; i < n; i++) {
		Step s = gen_load(r, false);
		s.uid = (uint64_t)i + 1;
		if (r.chance(1, 3))
			s.set("reuse", 1); // load into the set of the previous step instead of a fresh one
		p.steps.push_back(s);
	}
}

static void jwksdoc_exec(Ctx &ctx)
{
	const Plan &plan = *ctx.plan;
	jwk_set_t *set = NULL;
	ctx.nontrivial = true;
	for (size_t si = 0; si < plan.steps.size(); si++) {
		const Step &s = plan.steps[si];
		ctx.cur_step = (int)si;
		if (s.op != "LOAD")
			continue;
		sim_entropy_point(mix64(plan.rng, s.uid));
		std::string doc = build_doc(spec_from_step(s));
		bool reuse = s.I("reuse") && set;
		if (!reuse && set) {
			Armed a;
			jwks_free(set);
			set = NULL;
		}
		size_t before = set ? jwks_item_count(set) : 0;
		bool err_before = set ? jwks_error(set) != 0 : false;
		LoadResult lr = do_load(ctx, set, s, doc, !reuse);
		LoadModel lm = load_model(lr.D);
		ctx.logf("LOAD via=%s faults=[%s] doc=%s -> %s json_ok=%d expect_items=%zu", lr.via.c_str(), lr.faults.c_str(), show(lr.D, 100).c_str(), lr.set ? "set" : "NULL", lm.json_ok,
			 lm.items.size());
		if (!lr.set) {
			// every entry point documents a set on return for non-NULL arguments
			ctx.violation("C07", "load-returned-null", lr.via, strf("%s returned NULL for a non-NULL argument", lr.via.c_str()));
			continue;
		}
		set = lr.set;
		size_t added = check_load(ctx, "C07", lr, lm, before, err_before);
		ctx.sig(strf("C07|%s|%s|shape%lld|json%d|n%zu|err%d|any%d", lr.via.c_str(), lr.faults.c_str(), (long long)s.I("shape") % 8, lm.json_ok, added, jwks_error(set), jwks_error_any(set)));
		for (size_t i = 0; i < jwks_item_count(set); i++) {
			const jwk_item_t *it = jwks_item_get(set, i);
			if (it && jwks_item_error(it))
				ctx.count("c14:failure_cause:jwk:" + msg_class(jwks_item_error_msg(it)));
		}
	}
	if (set) {
		Armed a;
		jwks_free(set);
	}
	sim_scratch_cleanup();
	monitor_no_leak(ctx, "C07", "jwksdoc-run");
}

extern const Profile PROFILE_JWKSDOC = {"jwksdoc", jwksdoc_gen, jwksdoc_exec};

// ================================================================ keyring (C16)
static void keyring_gen(Rng &r, Plan &p, Tier tier, uint64_t index)
{
	p.cfg["reuse"] = Val((int64_t)(r.chance(1, 4) ? 1 : 0)); // allocator address reuse (see SimAlloc::reuse)
	p.cfg["allocfaults"] = Val((int64_t)(r.chance(1, 4) ? 1 : 0)); // loads with one failing allocation (no leak judgement in such runs)
	(void)index;
	int n = (int)r.range(5, tier == QUICK ? 40 : 80);
	for (int i = 0; i < n; i++) {
		Step s;
		int k = (int)r.below(20);
		if (k < 6) {
			s = gen_load(r, true);
			if (p.C("allocfaults") && r.chance(1, 3))
				s.set("failalloc", r.range(1, 160));
		} else if (k < 8) {
			s = Step("GET");
			// in range, just past the end, and values that alias small indices when truncated to 32 or 31 bits
			s.set("idx", r.chance(2, 3) ? r.range(0, 8) : (int64_t)r.pick(std::vector<int64_t>{-1, 1000000, (1LL << 32), (1LL << 32) + 1, (1LL << 32) + 2, (1LL << 31), (1LL << 31) + 1, (1LL << 33), INT64_MIN, INT64_MIN + 1, (1LL << 16), 255, 256}));
		} else if (k < 10) {
			s = Step("FIND");
			s.set("kid", (int64_t)r.below(10));
		} else if (k < 14) {
			s = Step("FREE");
			s.set("pos", r.range(0, 8)); // 0 first, 1 middle, 2 last, 3 out of range (count), 4 SIZE_MAX, 5 2^32, 6 2^32+1, 7 2^31, 8 2^63+last
		} else if (k < 16)
			s = Step("FREE_BAD");
		else if (k < 17)
			s = Step("FREE_ALL");
		else if (k < 19) {
			s = Step("ERR");
			s.set("clear", r.chance(1, 2) ? 1 : 0);
		} else if (r.chance(1, 2))
			s = Step("RECREATE");
		else {
			// the application switches crypto provider: items parsed under one are released under the other
			s = Step("PROVIDER");
			s.set("to", (int64_t)r.below(2));
		}
		s.set("set", (int64_t)r.below(2));
		s.uid = (uint64_t)i + 1;
		p.steps.push_back(s);
	}
}

struct RingItem {
	std::string kid;
	bool has_kid;
	bool errored;
	int kty;
};

struct Ring {
	jwk_set_t *set = nullptr;
	std::vector<RingItem> items;
	bool set_error = false;
};

static void check_ring(Ctx &ctx, Ring &rg, int which, size_t si, const std::string &op)
{
	if (!rg.set)
		return;
	size_t count = jwks_item_count(rg.set);
	std::string opn = op.substr(0, op.find(' '));
	if (count != rg.items.size()) {
		ctx.violation("C16", "count", opn, strf("after step %zu (%s) jwks_item_count(set %d) = %zu, the list model has %zu", si, op.c_str(), which, count, rg.items.size()));
		return;
	}
	size_t errored = 0;
	for (size_t i = 0; i < count; i++) {
		const jwk_item_t *it = jwks_item_get(rg.set, i);
		const RingItem &m = rg.items[i];
		if (m.errored)
			errored++;
		if (!it) {
			ctx.violation("C16", "get", opn, strf("after step %zu (%s) jwks_item_get(%zu) is NULL with count %zu", si, op.c_str(), i, count));
			continue;
		}
		const char *kid = jwks_item_kid(it);
		bool same = (jwks_item_error(it) != 0) == m.errored && (m.errored || ((m.has_kid ? (kid && m.kid == kid) : kid == NULL) && (int)jwks_item_kty(it) == m.kty));
		if (!same)
			ctx.violation("C16", "order", opn, strf("after step %zu (%s) item %zu of set %d is (kid %s, kty %d, error %d), the list model has (kid %s, kty %d, error %d)", si, op.c_str(), i, which,
								 kid ? show(kid).c_str() : "(null)", jwks_item_kty(it), jwks_item_error(it), m.has_kid ? show(m.kid).c_str() : "(none)", m.kty, m.errored));
	}
	if (jwks_item_get(rg.set, count) != NULL)
		ctx.violation("C16", "get-past-end", opn, strf("jwks_item_get(%zu) with count %zu is not NULL", count, count));
	int any = jwks_error_any(rg.set);
	int want_any = (rg.set_error ? 1 : 0) + (int)errored;
	if (any != want_any)
		ctx.violation("C16", "error-any", opn, strf("after step %zu (%s) jwks_error_any = %d, model: set error %d + %zu errored items", si, op.c_str(), any, rg.set_error, errored));
	if ((jwks_error(rg.set) != 0) != rg.set_error)
		ctx.violation("C16", "set-error", opn, strf("after step %zu (%s) jwks_error = %d, model says %d", si, op.c_str(), jwks_error(rg.set), rg.set_error));
	// find_bykid returns the first item whose kid equals the argument exactly. An element the
	// parser flagged as bad may or may not have had its kid recorded (statement silent), so an
	// errored element with that kid ahead of the first good match is an acceptable answer too.
	for (const char *k : {"k1", "k2", "k3", "dup", "K1", "k1 ", "k", "absent", ""}) {
		const jwk_item_t *f = jwks_find_bykid(rg.set, k);
		bool ok = false;
		long first_good = -1;
		for (size_t i = 0; i < rg.items.size(); i++) {
			if (!(rg.items[i].has_kid && rg.items[i].kid == k))
				continue;
			if (f == jwks_item_get(rg.set, i))
				ok = true;
			if (!rg.items[i].errored) {
				first_good = (long)i;
				break;
			}
		}
		if (f == NULL && first_good < 0)
			ok = true;
		if (!ok)
			ctx.violation("C16", "find-bykid", opn, strf("after step %zu (%s) jwks_find_bykid(\"%s\") returned %s, the first usable item with that kid is index %ld", si, op.c_str(), k,
								      f ? "another item" : "NULL", first_good));
	}
}

static void keyring_exec(Ctx &ctx)
{
	const Plan &plan = *ctx.plan;
	Ring rings[2];
	ctx.nontrivial = plan.steps.size() >= 3;
	g_alloc.spare_jansson = true;
	for (int i = 0; i < 2; i++) {
		Armed a;
		rings[i].set = jwks_create(NULL);
	}
	for (size_t si = 0; si < plan.steps.size(); si++) {
		const Step &s = plan.steps[si];
		ctx.cur_step = (int)si;
		int w = (int)(s.I("set") & 1);
		Ring &rg = rings[w];
		if (!rg.set)
			continue;
		std::string op = s.op;
		if (s.op == "LOAD") {
			sim_entropy_point(mix64(plan.rng, s.uid));
			std::string doc = build_doc(spec_from_step(s));
			size_t before = jwks_item_count(rg.set);
			bool err_before = jwks_error(rg.set) != 0;
			std::vector<const jwk_item_t *> held;
			for (size_t q = 0; q < before; q++)
				held.push_back(jwks_item_get(rg.set, q));
			LoadResult lr = do_load(ctx, rg.set, s, doc, false);
			LoadModel lm = load_model(lr.D);
			op = strf("LOAD %s[%s] shape%lld", lr.via.c_str(), lr.faults.c_str(), (long long)s.I("shape") % 8);
			if (lr.set != rg.set) {
				ctx.violation("C16", "load-returns-other-set", lr.via, strf("%s into an existing set returned %s", lr.via.c_str(), lr.set ? "a different pointer" : "NULL"));
				if (lr.set && lr.set != rg.set)
					jwks_free(lr.set);
			} else if (lr.alloc_fired) {
				// An allocation failed inside the load. What the list owes the application then: the items it held stay
				// where they were (other objects point to them); whatever was appended is taken as it is.
				ctx.count("fault:alloc_fail_in_keyring_load");
				op += "[allocfail]";
				size_t now_n = jwks_item_count(rg.set);
				bool kept = now_n >= rg.items.size();
				for (size_t q = 0; kept && q < held.size(); q++)
					if (jwks_item_get(rg.set, q) != held[q])
						kept = false;
				if (!kept)
					ctx.violation("C16", "load-destroys-items-already-in-the-list", lr.via,
						      strf("%s with one allocation failing: the list held %zu items before the call, afterwards %zu, and not the same ones in the same places", lr.via.c_str(),
							   rg.items.size(), now_n));
				// resynchronise the model with what the library holds now
				rg.items.clear();
				for (size_t q = 0; q < now_n; q++) {
					const jwk_item_t *it = jwks_item_get(rg.set, q);
					RingItem ri;
					ri.errored = it && jwks_item_error(it) != 0;
					const char *kid = it ? jwks_item_kid(it) : NULL;
					ri.has_kid = kid != NULL;
					ri.kid = kid ? kid : "";
					ri.kty = it ? (int)jwks_item_kty(it) : -1;
					rg.items.push_back(ri);
				}
				rg.set_error = jwks_error(rg.set) != 0;
			} else {
				check_load(ctx, "C16", lr, lm, before, err_before);
				if (!lr.parser_reached || !lm.json_ok)
					rg.set_error = true;
				else if (!lm.count_dont_care)
					for (auto &m : lm.items) {
						RingItem ri;
						ri.kid = m.kid;
						ri.has_kid = m.has_kid;
						ri.errored = m.expect == 1;
						ri.kty = m.kty;
						rg.items.push_back(ri);
					}
			}
			ctx.logf("%s -> count %zu", op.c_str(), jwks_item_count(rg.set));
		} else if (s.op == "GET") {
			int64_t idx = s.I("idx");
			const jwk_item_t *it = jwks_item_get(rg.set, (size_t)idx);
			bool in = idx >= 0 && (size_t)idx < rg.items.size();
			op = strf("GET %lld", (long long)idx);
			if ((it != NULL) != in)
				ctx.violation("C16", "get-range", "GET", strf("jwks_item_get(%lld) returned %s with %zu items", (long long)idx, it ? "an item" : "NULL", rg.items.size()));
			ctx.logf("%s -> %s", op.c_str(), it ? "item" : "NULL");
		} else if (s.op == "FIND") {
			op = "FIND";
			ctx.logf("FIND (checked for the whole kid alphabet below)");
		} else if (s.op == "FREE") {
			size_t n = rg.items.size();
			size_t idx;
			switch (s.I("pos")) {
			case 0:
				idx = 0;
				break;
			case 1:
				idx = n / 2;
				break;
			case 2:
				idx = n ? n - 1 : 0;
				break;
			case 3:
				idx = n;
				break;
			case 5:
				idx = (size_t)1 << 32;
				break;
			case 6:
				idx = ((size_t)1 << 32) + 1;
				break;
			case 7:
				idx = (size_t)1 << 31;
				break;
			case 8:
				idx = ((size_t)1 << 63) + (n ? n - 1 : 0);
				break;
			default:
				idx = SIZE_MAX;
			}
			int r;
			{
				Armed a;
				r = jwks_item_free(rg.set, idx);
			}
			int want = idx < n ? 1 : 0;
			op = strf("FREE idx=%zu of %zu", idx, n);
			if (want)
				rg.items.erase(rg.items.begin() + (long)idx);
			if (r != want)
				ctx.violation("C16", "free-return", strf("pos%lld", (long long)s.I("pos")), strf("jwks_item_free(%zu) with %zu items returned %d, expected %d", idx, n, r, want));
			ctx.logf("%s -> %d", op.c_str(), r);
			if (idx >= n)
				ctx.count("probe:free_index_out_of_range");
		} else if (s.op == "FREE_BAD") {
			int r;
			{
				Armed a;
				r = jwks_item_free_bad(rg.set);
			}
			int want = 0;
			for (size_t i = 0; i < rg.items.size();)
				if (rg.items[i].errored) {
					rg.items.erase(rg.items.begin() + (long)i);
					want++;
				} else
					i++;
			op = "FREE_BAD";
			if (r != want)
				ctx.violation("C16", "free-bad-return", "FREE_BAD", strf("jwks_item_free_bad returned %d, the model has %d errored items", r, want));
			ctx.logf("FREE_BAD -> %d", r);
			if (want > 1)
				ctx.count("probe:free_bad_removed_several");
		} else if (s.op == "FREE_ALL") {
			int r;
			{
				Armed a;
				r = jwks_item_free_all(rg.set);
			}
			if (r != (int)rg.items.size())
				ctx.violation("C16", "free-all-return", "FREE_ALL", strf("jwks_item_free_all returned %d with %zu items", r, rg.items.size()));
			rg.items.clear();
			op = "FREE_ALL";
			ctx.logf("FREE_ALL -> %d", r);
		} else if (s.op == "ERR") {
			if (s.I("clear")) {
				jwks_error_clear(rg.set);
				rg.set_error = false;
				const char *m = jwks_error_msg(rg.set);
				if (m && *m)
					ctx.violation("C16", "error-clear", "ERR", "jwks_error_clear left a message behind");
			}
			op = s.I("clear") ? "ERR clear" : "ERR query";
			ctx.logf("%s", op.c_str());
		} else if (s.op == "RECREATE") {
			{
				Armed a;
				jwks_free(rg.set);
				rg.set = jwks_create(NULL);
			}
			rg.items.clear();
			rg.set_error = false;
			op = "RECREATE";
			ctx.logf("RECREATE set %d", w);
		} else if (s.op == "PROVIDER") {
			jwt_set_crypto_ops_t(s.I("to") ? JWT_CRYPTO_OPS_GNUTLS : JWT_CRYPTO_OPS_OPENSSL);
			ctx.count("fault:provider_switched_between_load_and_release");
			op = strf("PROVIDER %s", s.I("to") ? "gnutls" : "openssl");
			ctx.logf("%s", op.c_str());
		} else
			continue;
		ctx.sig(strf("C16|%s|n%zu|e%d", op.c_str(), rg.items.size() > 6 ? (size_t)6 : rg.items.size(), rg.set_error));
		// both keyrings are checked after every step: operations on one never affect the other
		check_ring(ctx, rings[0], 0, si, op);
		check_ring(ctx, rings[1], 1, si, op);
	}
	for (int i = 0; i < 2; i++)
		if (rings[i].set) {
			Armed a;
			jwks_free(rings[i].set);
		}
	sim_scratch_cleanup();
	monitor_no_leak(ctx, "C16", "keyring-run");
}

extern const Profile PROFILE_KEYRING = {"keyring", keyring_gen, keyring_exec};
