// Profile "oom" (C17): fault enumeration over the allocation index. A scenario (short sequence of
// public operations) is run fault-free, then once for every allocator request it makes with
// exactly that request returning NULL; each faulted run is compared op by op with the fault-free
// one: same result, or a failure reported through the documented channel - never an abort, a
// wrong accept or an altered token.
#include "lib.hpp"
#include <sys/wait.h>
#include <fcntl.h>
#include <unistd.h>
#include <functional>
#include "world.hpp"
#include <unistd.h>
#include <dlfcn.h>

struct KeySlot {
	KeyRef truth;
	std::string jwk;
	bool priv = true;
	int alg = JWT_ALG_NONE; // natural algorithm for this key
	bool bad = false;
};

struct OomState {
	jwk_set_t *sets[3] = {NULL, NULL, NULL};
	jwt_builder_t *b[2] = {NULL, NULL};
	jwt_checker_t *c[2] = {NULL, NULL};
	int bkey[2] = {-1, -1}, ckey[2] = {-1, -1}; // key slot in force (model)
	std::string tokens[3];
	bool have_token[3] = {false, false, false};
	int token_key[3] = {-1, -1, -1};
};

struct OpRes {
	std::string res;  // observable result (compared for equality)
	int failmeasure = 0; // larger = more failure reported through documented channels
	bool accepted = false; // verify returned 0
	bool token = false;    // generate returned a token
	uint64_t reqs = 0;
	bool fired = false;
	bool lost_earlier = false; // a load into a set that already held items removed or replaced one of them
	ParseRecord parse;
	DumpRecord dump;
};

// ---------------------------------------------------------------- generator
static void oom_gen(Rng &r, Plan &p, Tier tier, uint64_t index)
{
	if (index == 0) {
		p.cfg["parser_probe"] = Val((int64_t)1); // see jansson_probe()
		return;
	}
	p.cfg["prov"] = Val((int64_t)(r.chance(1, 3) ? 1 : 0));
	p.cfg["from"] = Val((int64_t)(tier == THOROUGH && r.chance(1, 3) ? 1 : 0)); // every request from k on fails
	if (tier == THOROUGH && !p.C("from") && r.chance(1, 3))
		p.cfg["pair"] = Val(r.range(1, 6)); // pairs of faults: request k and request k+delta fail
	uint64_t uid = 1;
	auto push = [&](Step s) {
		s.uid = uid++;
		p.steps.push_back(s);
	};
	int tmpl = (int)r.below(5);
	int nkeys = tmpl == 0 ? (int)r.range(1, 2) : 1;
	for (int i = 0; i < nkeys; i++) {
		Step s("LOADKEY");
		s.set("slot", i);
		// RSA is the slow one: rarer
		s.set("kind", (int64_t)r.pick(std::vector<int>{0, 0, 0, 1, 1, 2, 3}));
		s.set("sub", (int64_t)r.below(4));
		s.set("priv", tmpl == 0 ? (int64_t)r.below(2) : 1);
		s.set("attr", (int64_t)r.below(2));
		s.set("kid", (int64_t)r.below(3));
		s.set("via", (int64_t)r.pick(std::vector<int>{0, 0, 1, 2, 3, 4}));
		s.set("bad", tmpl == 0 && r.chance(1, 4) ? 1 : 0);
		s.set("multi", tmpl == 0 ? (int64_t)r.below(3) : 0); // extra keys in a JWKS document
		push(s);
	}
	if (tmpl == 0 && r.chance(1, 2)) {
		// a second document loaded into the set that already holds keys: they must survive a failed load
		Step s("LOADKEY");
		s.set("slot", 0);
		s.set("into", 1);
		s.set("kind", (int64_t)r.pick(std::vector<int>{0, 1, 2}));
		s.set("sub", (int64_t)r.below(4));
		s.set("priv", (int64_t)r.below(2));
		s.set("attr", (int64_t)r.below(2));
		s.set("kid", (int64_t)r.below(3));
		s.set("via", (int64_t)r.pick(std::vector<int>{1, 2, 3, 4}));
		s.set("bad", r.chance(1, 4) ? 1 : 0);
		s.set("multi", (int64_t)r.below(3));
		push(s);
	}
	if (tmpl == 0) {
		int n = (int)r.range(1, 4);
		for (int i = 0; i < n; i++) {
			Step s("RING");
			s.set("slot", (int64_t)r.below((uint64_t)nkeys));
			s.set("what", (int64_t)r.below(5));
			push(s);
		}
		return;
	}
	bool use_builder = tmpl != 3;
	bool use_checker = tmpl != 4;
	if (use_builder) {
		Step s("BNEW");
		s.set("b", 0);
		push(s);
		Step k("BSETKEY");
		k.set("b", 0);
		k.set("slot", 0);
		k.set("explicit", r.chance(1, 2) ? 1 : 0);
		push(k);
		int ne = (int)r.range(0, 4);
		for (int i = 0; i < ne; i++) {
			Step e("BVAL");
			e.set("b", 0);
			e.set("hdr", r.chance(1, 3) ? 1 : 0);
			e.set("act", (int64_t)r.pick(std::vector<int>{0, 0, 0, 1, 2, 3})); // set, set, set, get, del, get-json
			e.set("type", r.range(0, 3));
			e.set("name", (int64_t)r.below(4));
			e.set("val", (int64_t)r.below(8));
			e.set("replace", r.chance(1, 2) ? 1 : 0);
			push(e);
		}
		if (r.chance(1, 2)) {
			Step o("BOPT");
			o.set("b", 0);
			o.set("iat", r.chance(2, 3) ? 1 : 0);
			o.set("exp", (int64_t)r.pick(std::vector<int>{0, 60, 3600}));
			o.set("nbf", (int64_t)r.pick(std::vector<int>{0, 0, 10}));
			push(o);
		}
		if (r.chance(1, 3)) {
			Step c("BCB");
			c.set("b", 0);
			c.set("mode", r.range(0, 2)); // 0 edits, 1 sets key, 2 returns error
			push(c);
		}
		Step g("GEN");
		g.set("b", 0);
		g.set("tok", 0);
		push(g);
		if (r.chance(1, 3)) {
			Step g2("GEN");
			g2.set("b", 0);
			g2.set("tok", 1);
			push(g2);
		}
	}
	if (use_checker) {
		Step s("CNEW");
		s.set("c", 0);
		push(s);
		Step k("CSETKEY");
		k.set("c", 0);
		k.set("slot", 0);
		k.set("explicit", r.chance(1, 2) ? 1 : 0);
		push(k);
		if (r.chance(1, 2)) {
			Step cc("CCLAIM");
			cc.set("c", 0);
			cc.set("what", r.range(0, 3));
			push(cc);
		}
		if (r.chance(1, 3)) {
			Step c("CCB");
			c.set("c", 0);
			c.set("mode", r.range(0, 3));
			push(c);
		}
		int nv = (int)r.range(1, 3);
		for (int i = 0; i < nv; i++) {
			Step v("VERIFY");
			v.set("c", 0);
			v.set("kind", (int64_t)r.pick(std::vector<int>{0, 0, 1, 2, 3, 4, 5}));
			v.set("tok", (int64_t)r.below(2));
			push(v);
		}
	}
}

// ---------------------------------------------------------------- scenario preparation
static const char *VNAMES[] = {"a", "b", "sub", "k-long-name-0123456789"};

static void prepare_keys(const Plan &plan, std::map<int, KeySlot> &keys, std::map<uint64_t, std::string> &docs)
{
	for (auto &s : plan.steps) {
		if (s.op != "LOADKEY")
			continue;
		KeySlot ks;
		sim_entropy_point(mix64(plan.rng, s.uid));
		Rng r(mix64(plan.rng, s.uid * 131));
		int kind = (int)s.I("kind") % 4, sub = (int)s.I("sub");
		switch (kind) {
		case 0:
			ks.truth = key_gen_oct(r, (size_t)(sub % 2 ? 64 : 32));
			ks.alg = sub % 2 ? JWT_ALG_HS512 : JWT_ALG_HS256;
			break;
		case 1: {
			static const char *crv[] = {"P-256", "P-384", "P-521", "P-256"};
			static const int alg[] = {JWT_ALG_ES256, JWT_ALG_ES384, JWT_ALG_ES512, JWT_ALG_ES256};
			ks.truth = key_gen_ec(crv[sub % 4]);
			ks.alg = alg[sub % 4];
			break;
		}
		case 2:
			ks.truth = key_gen_okp(sub % 2 ? "Ed448" : "Ed25519");
			ks.alg = JWT_ALG_EDDSA;
			break;
		default:
			ks.truth = key_rsa_pool(2048, sub % 2);
			ks.alg = sub % 4 < 2 ? JWT_ALG_RS256 : JWT_ALG_PS256;
		}
		ks.priv = s.I("priv") != 0 || kind == 0;
		ks.bad = s.I("bad") != 0;
		JwkOpts o;
		o.priv = ks.priv;
		if (s.I("attr")) {
			o.has_alg = true;
			o.alg = ALGS[ks.alg].name;
		}
		if (s.I("kid")) {
			o.has_kid = true;
			o.kid = s.I("kid") == 1 ? "k1" : "a-rather-long-key-identifier-0123456789";
		}
		json_t *j = jwk_export_json(*ks.truth, o);
		if (ks.bad)
			json_object_del(j, kind == 0 ? "k" : kind == 3 ? "n" : "x");
		std::string doc;
		int multi = (int)s.I("multi");
		if (multi) {
			json_t *d = json_object(), *a = json_array();
			json_array_append(a, j);
			for (int i = 0; i < multi; i++) {
				json_t *e = json_loads(i % 2 ? "{\"kty\":\"oct\",\"k\":\"AAAAAAAAAAAAAAAAAAAAAAAAAAAAAAAAAAAAAAAAAAA\",\"kid\":\"extra-oct\"}" : "{\"kty\":\"nope\",\"kid\":\"extra-bad\"}", 0, NULL);
				json_array_append_new(a, e);
			}
			json_object_set_new(d, "keys", a);
			doc = json_text(d);
			json_decref(d);
		} else
			doc = json_text(j);
		json_decref(j);
		ks.jwk = doc;
		if (!s.I("into"))
			keys[(int)s.I("slot")] = ks;
		docs[s.uid] = doc;
	}
}

// ---------------------------------------------------------------- callbacks
struct OomCb {
	int mode = 0;
	const jwk_item_t *key = NULL;
	int alg = JWT_ALG_NONE;
};
static OomCb g_oomcb[4];

static int oom_cb(jwt_t *jwt, jwt_config_t *config)
{
	OomCb *c = (OomCb *)config->ctx;
	if (!c)
		return 0;
	if (c->mode == 0) {
		// a well-behaved application: a failed edit makes the callback fail
		jwt_value_t jv;
		jv_set_str(&jv, "cbclaim", "from-callback", 1);
		if (jwt_claim_set(jwt, &jv))
			return 1;
		jv_set_int(&jv, "cbnum", 7, 1);
		if (jwt_claim_set(jwt, &jv))
			return 1;
		jv_get(&jv, JWT_VALUE_JSON, NULL);
		if (jwt_header_get(jwt, &jv) == JWT_VALUE_ERR_NONE && jv.json_val)
			sim_harness_free(jv.json_val);
	} else if (c->mode == 1) {
		config->key = c->key;
		config->alg = (jwt_alg_t)c->alg;
	} else if (c->mode == 3) {
		// an application that strips the time claims from the object it is handed (the API documentation promises
		// that this does not change the verdict) and does not care whether that worked
		jwt_claim_del(jwt, "exp");
		jwt_claim_del(jwt, "nbf");
		jwt_claim_del(jwt, "iss");
	} else
		return 1;
	return 0;
}

// ---------------------------------------------------------------- describing results
static std::string describe_set(jwk_set_t *set, int &failmeasure)
{
	if (!set) {
		failmeasure = 1000;
		return "set=NULL";
	}
	std::string d = strf("err=%d count=%zu", jwks_error(set), jwks_item_count(set));
	// a set error is a reported failure of the load itself; errored items count individually
	failmeasure = (jwks_error(set) ? 100 : 0) + jwks_error_any(set);
	for (size_t i = 0; i < jwks_item_count(set); i++) {
		const jwk_item_t *it = jwks_item_get(set, i);
		if (!it) {
			d += " [NULL]";
			continue;
		}
		const unsigned char *ob = NULL;
		size_t ol = 0;
		std::string oct;
		if (jwks_item_kty(it) == JWK_KEY_TYPE_OCT && jwks_item_key_oct(it, &ob, &ol) == 0)
			oct = hex_encode(std::string((const char *)ob, ol));
		if (jwks_item_error(it)) {
			// an item flagged as bad is unusable whatever its metadata says
			d += " [err=1]";
			continue;
		}
		const char *pem = jwks_item_pem(it);
		d += strf(" [kty=%d alg=%d kid=%s bits=%d priv=%d err=%d use=%d ops=%d crv=%s oct=%s pem=%016llx]", jwks_item_kty(it), jwks_item_alg(it), jwks_item_kid(it) ? jwks_item_kid(it) : "-",
			  jwks_item_key_bits(it), jwks_item_is_private(it), jwks_item_error(it), jwks_item_use(it), jwks_item_key_ops(it), jwks_item_curve(it) ? jwks_item_curve(it) : "-", oct.c_str(),
			  (unsigned long long)(pem ? hash_str(pem) : 0));
	}
	return d;
}

static std::string describe_token(const std::string &tok, const KeyTruth *k)
{
	TokenParts tp;
	token_split(tok, tp);
	std::string h, p;
	if (tp.has2) {
		b64_decode_lenient(tp.seg[0], h);
		b64_decode_lenient(tp.seg[1], p);
	}
	const AlgInfo *a = tp.alg_is_string ? alg_by_name(tp.alg) : NULL;
	int valid = -1;
	if (a && a->fam != FAM_NONE && k)
		valid = ref_sig_valid(*k, *a, tp.signing_input, tp.seg[2]) ? 1 : 0;
	else if (a && a->fam == FAM_NONE)
		valid = tp.seg[2].empty() ? 2 : 0;
	return strf("token hdr=%s pay=%s sig=%d", h.c_str(), p.c_str(), valid);
}

// ---------------------------------------------------------------- executing one op
struct Scenario {
	const Plan *plan;
	std::map<int, KeySlot> keys;
	std::map<uint64_t, std::string> docs;
	int prov;
};

static const jwk_item_t *slot_item(OomState &st, int slot)
{
	if (slot < 0 || slot > 2 || !st.sets[slot])
		return NULL;
	for (size_t i = 0; i < jwks_item_count(st.sets[slot]); i++) {
		const jwk_item_t *it = jwks_item_get(st.sets[slot], i);
		if (it && !jwks_item_error(it))
			return it;
	}
	return jwks_item_get(st.sets[slot], 0);
}

static int64_t g_pair_delta; // thorough tier: a second request, this far behind the first, fails too

static OpRes run_op(Scenario &sc, OomState &st, const Step &s, int64_t fail_at, bool fail_from)
{
	int64_t fail_at2 = fail_at > 0 && g_pair_delta > 0 ? fail_at + g_pair_delta : 0;
	OpRes r;
	const std::string &op = s.op;
	sim_entropy_point(mix64(sc.plan->rng, s.uid));
	g_alloc.last_parse_fault = ParseRecord();
	g_alloc.last_dump_fault = DumpRecord();
	if (op == "LOADKEY") {
		int slot = (int)s.I("slot") % 3;
		const std::string &doc = sc.docs[s.uid];
		int via = (int)s.I("via") % 5;
		jwk_set_t *set = NULL;
		jwk_set_t *into = s.I("into") ? st.sets[slot] : NULL;
		// what the set held before: a load appends, whether it succeeds or reports failure (other objects may
		// hold pointers to these items)
		std::vector<const jwk_item_t *> held;
		if (into)
			for (size_t q = 0; q < jwks_item_count(into); q++)
				held.push_back(jwks_item_get(into, q));
		StreamState ss;
		FILE *f = NULL;
		std::string path;
		if (via == 3) {
			ss.data = doc;
			ss.pol.chunk = 64;
			f = sim_fopen(&ss);
		} else if (via == 4) {
			path = sim_scratch_dir() + strf("/oom-%llu.json", (unsigned long long)s.uid);
			FILE *w = fopen(path.c_str(), "wb");
			if (w) {
				fwrite(doc.data(), 1, doc.size(), w);
				fclose(w);
			}
		}
		{
			Armed a(fail_at, fail_from, fail_at2);
			switch (via) {
			case 0:
				set = into ? jwks_load(into, doc.c_str()) : jwks_create(doc.c_str());
				break;
			case 1:
				set = jwks_load(into, doc.c_str());
				break;
			case 2:
				set = into ? jwks_load_strn(into, doc.data(), doc.size()) : jwks_create_strn(doc.data(), doc.size());
				break;
			case 3:
				set = into ? jwks_load_fromfp(into, f) : jwks_create_fromfp(f);
				break;
			default:
				set = into ? jwks_load_fromfile(into, path.c_str()) : jwks_create_fromfile(path.c_str());
			}
			r.reqs = a.reqs();
			r.fired = a.fired() > 0;
		}
		if (f)
			fclose(f);
		if (!path.empty())
			unlink(path.c_str());
		if (into) {
			// the loaders return the set they were given; anything else would orphan it
			if (set != into)
				r.res = "returned-other-set ";
			set = into;
			if (jwks_item_count(into) < held.size())
				r.lost_earlier = true;
			else
				for (size_t q = 0; q < held.size(); q++)
					if (jwks_item_get(into, q) != held[q])
						r.lost_earlier = true;
		} else {
			if (st.sets[slot]) {
				Armed a;
				jwks_free(st.sets[slot]);
			}
			st.sets[slot] = set;
		}
		r.res += describe_set(set, r.failmeasure);
	} else if (op == "RING") {
		int slot = (int)s.I("slot") % 3;
		jwk_set_t *set = st.sets[slot];
		if (!set) {
			r.res = "noset";
			return r;
		}
		int ret = 0;
		{
			Armed a(fail_at, fail_from, fail_at2);
			switch (s.I("what")) {
			case 0:
				ret = jwks_item_free(set, 0);
				break;
			case 1:
				ret = jwks_item_free_bad(set);
				break;
			case 2: {
				// metadata of an item flagged as bad is not part of the observable result
				const jwk_item_t *f = jwks_find_bykid(set, "k1");
				ret = 0;
				if (f && !jwks_item_error(f))
					ret = 1;
				else if (f) {
					// a flagged item shadows the lookup: whether its kid was recorded is not observable state
					for (size_t q = 0; q < jwks_item_count(set); q++) {
						const jwk_item_t *it = jwks_item_get(set, q);
						if (it && !jwks_item_error(it) && jwks_item_kid(it) && !strcmp(jwks_item_kid(it), "k1"))
							ret = 1;
					}
				}
				break;
			}
			case 3:
				ret = jwks_item_free(set, jwks_item_count(set));
				break;
			default:
				ret = jwks_item_free_all(set);
			}
			r.reqs = a.reqs();
			r.fired = a.fired() > 0;
		}
		int fm;
		r.res = strf("ret=%d ", ret) + describe_set(set, fm);
	} else if (op == "BNEW" || op == "CNEW") {
		bool bld = op == "BNEW";
		int i = (int)(s.I(bld ? "b" : "c") & 1);
		void *p;
		{
			Armed a(fail_at, fail_from, fail_at2);
			if (bld)
				p = jwt_builder_new();
			else
				p = jwt_checker_new();
			r.reqs = a.reqs();
			r.fired = a.fired() > 0;
		}
		if (bld) {
			if (st.b[i]) {
				Armed a;
				jwt_builder_free(st.b[i]);
			}
			st.b[i] = (jwt_builder_t *)p;
		} else {
			if (st.c[i]) {
				Armed a;
				jwt_checker_free(st.c[i]);
			}
			st.c[i] = (jwt_checker_t *)p;
		}
		r.res = p ? "object" : "NULL";
		r.failmeasure = p ? 0 : 1;
	} else if (op == "BSETKEY" || op == "CSETKEY") {
		bool bld = op == "BSETKEY";
		int i = (int)(s.I(bld ? "b" : "c") & 1);
		int slot = (int)s.I("slot") % 3;
		const jwk_item_t *it = slot_item(st, slot);
		KeySlot &ks = sc.keys[slot];
		jwt_alg_t alg = s.I("explicit") || (it && jwks_item_alg(it) == JWT_ALG_NONE) ? (jwt_alg_t)ks.alg : JWT_ALG_NONE;
		int ret = 1;
		if ((bld && !st.b[i]) || (!bld && !st.c[i]) || !it) {
			r.res = "skipped";
			return r;
		}
		{
			Armed a(fail_at, fail_from, fail_at2);
			ret = bld ? jwt_builder_setkey(st.b[i], alg, it) : jwt_checker_setkey(st.c[i], alg, it);
			r.reqs = a.reqs();
			r.fired = a.fired() > 0;
		}
		if (ret == 0)
			(bld ? st.bkey[i] : st.ckey[i]) = slot;
		r.res = strf("ret=%d", ret);
		r.failmeasure = ret != 0;
	} else if (op == "BVAL") {
		int i = (int)(s.I("b") & 1);
		if (!st.b[i]) {
			r.res = "skipped";
			return r;
		}
		bool hdr = s.I("hdr") != 0;
		const char *name = VNAMES[(uint64_t)s.I("name") % ARRAY_LEN(VNAMES)];
		int act = (int)s.I("act"), type = (int)s.I("type") % 4, val = (int)s.I("val");
		jwt_value_t jv;
		std::string sv, out;
		int rc;
		static const char *strs[] = {"short", "a-string-longer-than-sixteen-bytes-0123456789", "", "\xc3\xbc"};
		static const char *jsons[] = {"{\"x\":[1,2,{\"y\":\"a-string-longer-than-sixteen-bytes\"}]}", "[1,2,3]", "{\"a\":1,\"b\":\"two\"}", "{}"};
		Armed a(fail_at, fail_from, fail_at2);
		if (act == 0) {
			if (type == 0)
				jv_set_int(&jv, name, 1000 + val, (int)s.I("replace"));
			else if (type == 1)
				jv_set_str(&jv, name, strs[val % 4], (int)s.I("replace"));
			else if (type == 2)
				jv_set_bool(&jv, name, val % 2, (int)s.I("replace"));
			else
				jv_set_json(&jv, val % 3 == 0 ? NULL : name, jsons[val % 4], (int)s.I("replace"));
			rc = hdr ? jwt_builder_header_set(st.b[i], &jv) : jwt_builder_claim_set(st.b[i], &jv);
		} else if (act == 1) {
			jv_get(&jv, type == 0 ? JWT_VALUE_INT : type == 1 ? JWT_VALUE_STR : type == 2 ? JWT_VALUE_BOOL : JWT_VALUE_JSON, name);
			rc = hdr ? jwt_builder_header_get(st.b[i], &jv) : jwt_builder_claim_get(st.b[i], &jv);
			if (rc == JWT_VALUE_ERR_NONE) {
				if (type == 0)
					out = strf("%ld", jv.int_val);
				else if (type == 1)
					out = jv.str_val ? jv.str_val : "(null)";
				else if (type == 2)
					out = strf("%d", jv.bool_val);
				else
					out = jv.json_val ? jv.json_val : "(null)";
			}
			if (type == 3 && jv.json_val)
				sim_harness_free(jv.json_val);
		} else if (act == 2) {
			rc = hdr ? jwt_builder_header_del(st.b[i], val % 3 == 0 ? NULL : name) : jwt_builder_claim_del(st.b[i], val % 3 == 0 ? NULL : name);
		} else {
			jv_get(&jv, JWT_VALUE_JSON, NULL);
			rc = hdr ? jwt_builder_header_get(st.b[i], &jv) : jwt_builder_claim_get(st.b[i], &jv);
			if (rc == JWT_VALUE_ERR_NONE && jv.json_val)
				out = jv.json_val;
			if (jv.json_val)
				sim_harness_free(jv.json_val);
		}
		r.reqs = a.reqs();
		r.fired = a.fired() > 0;
		r.res = strf("rc=%d out=%s", rc, out.c_str());
		r.failmeasure = rc != JWT_VALUE_ERR_NONE;
	} else if (op == "BOPT") {
		int i = (int)(s.I("b") & 1);
		if (!st.b[i]) {
			r.res = "skipped";
			return r;
		}
		Armed a(fail_at, fail_from, fail_at2);
		jwt_builder_enable_iat(st.b[i], (int)s.I("iat"));
		int r1 = jwt_builder_time_offset(st.b[i], JWT_CLAIM_EXP, (time_t)s.I("exp"));
		int r2 = jwt_builder_time_offset(st.b[i], JWT_CLAIM_NBF, (time_t)s.I("nbf"));
		r.reqs = a.reqs();
		r.fired = a.fired() > 0;
		r.res = strf("ret=%d/%d", r1, r2);
	} else if (op == "BCB" || op == "CCB") {
		bool bld = op == "BCB";
		int i = (int)(s.I(bld ? "b" : "c") & 1);
		if ((bld && !st.b[i]) || (!bld && !st.c[i])) {
			r.res = "skipped";
			return r;
		}
		OomCb *cb = &g_oomcb[(bld ? 0 : 2) + i];
		cb->mode = (int)s.I("mode") % 4;
		int slot = bld ? st.bkey[i] : st.ckey[i];
		cb->key = slot_item(st, slot < 0 ? 0 : slot);
		cb->alg = sc.keys.count(slot < 0 ? 0 : slot) ? sc.keys[slot < 0 ? 0 : slot].alg : JWT_ALG_NONE;
		if (cb->key && jwks_item_alg(cb->key) != JWT_ALG_NONE && jwks_item_alg(cb->key) != cb->alg)
			cb->alg = jwks_item_alg(cb->key);
		int ret;
		{
			Armed a(fail_at, fail_from, fail_at2);
			ret = bld ? jwt_builder_setcb(st.b[i], oom_cb, cb) : jwt_checker_setcb(st.c[i], oom_cb, cb);
			r.reqs = a.reqs();
			r.fired = a.fired() > 0;
		}
		r.res = strf("ret=%d", ret);
	} else if (op == "CCLAIM") {
		int i = (int)(s.I("c") & 1);
		if (!st.c[i]) {
			r.res = "skipped";
			return r;
		}
		int ret;
		Armed a(fail_at, fail_from, fail_at2);
		switch (s.I("what")) {
		case 0:
			ret = jwt_checker_claim_set(st.c[i], JWT_CLAIM_ISS, "an-issuer-name-longer-than-sixteen-bytes");
			break;
		case 1:
			ret = jwt_checker_claim_set(st.c[i], JWT_CLAIM_AUD, "aud");
			break;
		case 2:
			ret = jwt_checker_time_leeway(st.c[i], JWT_CLAIM_EXP, 30);
			break;
		default:
			ret = jwt_checker_claim_del(st.c[i], JWT_CLAIM_ISS);
		}
		r.reqs = a.reqs();
		r.fired = a.fired() > 0;
		const char *g = jwt_checker_claim_get(st.c[i], JWT_CLAIM_ISS);
		r.res = strf("ret=%d iss=%s", ret, g ? g : "-");
		r.failmeasure = ret != 0;
	} else if (op == "GEN") {
		int i = (int)(s.I("b") & 1), t = (int)s.I("tok") % 3;
		if (!st.b[i]) {
			r.res = "skipped";
			return r;
		}
		Ctx dummy;
		GenerateOut go = lib_generate(dummy, st.b[i], false, fail_at, fail_from, fail_at2);
		r.reqs = go.alloc_reqs;
		r.fired = go.faults_fired > 0;
		int slot = st.bkey[i];
		const KeyTruth *k = slot >= 0 && sc.keys.count(slot) ? sc.keys[slot].truth.get() : NULL;
		if (go.ok) {
			st.tokens[t] = go.token;
			st.have_token[t] = true;
			st.token_key[t] = slot;
			r.token = true;
			r.res = describe_token(go.token, k);
		} else {
			r.res = "NULL";
			r.failmeasure = 1;
		}
		jwt_builder_error_clear(st.b[i]);
	} else if (op == "VERIFY") {
		int i = (int)(s.I("c") & 1);
		if (!st.c[i]) {
			r.res = "skipped";
			return r;
		}
		int kind = (int)s.I("kind");
		int slot = st.ckey[i];
		const KeySlot *ks = slot >= 0 && sc.keys.count(slot) ? &sc.keys[slot] : NULL;
		std::string tok;
		int64_t now = g_clock.now();
		std::string pay = strf("{\"iss\":\"an-issuer-name-longer-than-sixteen-bytes\",\"aud\":\"aud\",\"nbf\":%lld,\"exp\":%lld,\"note\":\"a-claim-value-longer-than-sixteen-bytes\"}", (long long)(now - 5),
				       (long long)(now + 1000));
		const AlgInfo *ka = ks ? &ALGS[ks->alg] : NULL;
		std::string hdr = ka ? strf("{\"alg\":\"%s\",\"typ\":\"JWT\"}", ka->name) : std::string("{\"alg\":\"none\"}");
		switch (kind) {
		case 0: // token generated earlier in the scenario
			if (st.have_token[(int)s.I("tok") % 3])
				tok = st.tokens[(int)s.I("tok") % 3];
			else
				ref_make_token(hdr, pay, ks ? ks->truth.get() : NULL, ka, tok);
			break;
		case 1:
			ref_make_token(hdr, pay, ks ? ks->truth.get() : NULL, ka, tok);
			break;
		case 2: // bad signature
			ref_make_token(hdr, pay, ks ? ks->truth.get() : NULL, ka, tok);
			if (ka && tok.size() > 4)
				tok[tok.size() - 3] = tok[tok.size() - 3] == 'A' ? 'B' : 'A';
			else
				tok += "AAAA";
			break;
		case 3: // nbf in the future: rejected only by the claim check
			ref_make_token(hdr, strf("{\"nbf\":%lld,\"exp\":%lld}", (long long)(now + 100000), (long long)(now + 200000)), ks ? ks->truth.get() : NULL, ka, tok);
			break;
		case 4: // expired
			ref_make_token(hdr, strf("{\"exp\":%lld}", (long long)(now - 100000)), ks ? ks->truth.get() : NULL, ka, tok);
			break;
		default:
			tok = "garbage.without.meaning";
		}
		Ctx dummy;
		VerifyOut vo = lib_verify(dummy, st.c[i], tok.c_str(), false, fail_at, fail_from, fail_at2);
		r.reqs = vo.alloc_reqs;
		r.fired = vo.faults_fired > 0;
		r.accepted = vo.ret == 0;
		r.res = strf("ret=%d", vo.ret != 0);
		r.failmeasure = vo.ret != 0;
		jwt_checker_error_clear(st.c[i]);
	} else
		r.res = "unknown-op";
	if (r.fired) {
		r.parse = g_alloc.last_parse_fault;
		r.dump = g_alloc.last_dump_fault;
	}
	return r;
}

static void teardown(OomState &st)
{
	Armed a;
	for (int i = 0; i < 2; i++) {
		if (st.b[i])
			jwt_builder_free(st.b[i]);
		if (st.c[i])
			jwt_checker_free(st.c[i]);
		st.b[i] = NULL;
		st.c[i] = NULL;
	}
	for (int i = 0; i < 3; i++) {
		if (st.sets[i])
			jwks_free(st.sets[i]);
		st.sets[i] = NULL;
	}
}

// Does jansson alone, given the same bytes and flags and failing the same request relative to
// parser entry, return a tree that differs from the fault-free tree? (dependency defect, DESIGN C17)
static bool jansson_alone_reproduces(const ParseRecord &pr)
{
	if (!pr.valid || pr.bytes.empty())
		return false;
	typedef json_t *(*loadb_t)(const char *, size_t, size_t, json_error_t *);
	static loadb_t real = (loadb_t)dlsym(RTLD_NEXT, "json_loadb");
	if (!real)
		return false;
	json_t *t0 = real(pr.bytes.data(), pr.bytes.size(), pr.flags, NULL);
	json_t *t1;
	{
		Armed a((int64_t)pr.k_rel, pr.from, pr.delta ? (int64_t)(pr.k_rel + pr.delta) : 0);
		t1 = real(pr.bytes.data(), pr.bytes.size(), pr.flags, NULL);
	}
	bool differs = t1 && t0 && !json_equal(t0, t1);
	if (t0)
		json_decref(t0);
	if (t1)
		json_decref(t1);
	return differs;
}

static bool jansson_alone_reproduces_dump(const DumpRecord &dr)
{
	if (!dr.valid || dr.text.empty())
		return false;
	typedef json_t *(*loadb_t)(const char *, size_t, size_t, json_error_t *);
	typedef char *(*dumps_t)(const json_t *, size_t);
	static loadb_t rload = (loadb_t)dlsym(RTLD_NEXT, "json_loadb");
	static dumps_t rdump = (dumps_t)dlsym(RTLD_NEXT, "json_dumps");
	if (!rload || !rdump)
		return false;
	json_t *t = rload(dr.text.data(), dr.text.size(), JSON_DECODE_ANY, NULL);
	if (!t)
		return false;
	char *d;
	{
		Armed a((int64_t)dr.k_rel, dr.from, dr.delta ? (int64_t)(dr.k_rel + dr.delta) : 0);
		d = rdump(t, dr.flags);
	}
	bool differs = d && dr.text != d;
	sim_harness_free(d);
	json_decref(t);
	return differs;
}

// ---------------------------------------------------------------- jansson parser probe (run 0 of the check)
// The scenarios above keep their number tokens short. With a number of 16 or more characters in a token, jansson
// 2.14's lexer does worse than lose a character when the growth of its token buffer fails: an assertion in
// lex_unget_unsave() aborts the process, or the buffer is written out of bounds. That is reached through
// jwt_checker_verify() with an application allocator, so it is a C17 finding; it cannot be repaired in libjwt.
// Every attempt runs in a forked child, so that the worker survives; the same text is then handed to jansson alone.
static int run_in_fork(const std::function<void()> &f)
{
	fflush(stdout);
	fflush(stderr);
	pid_t pid = fork();
	if (pid == 0) {
		int fd = open("/dev/null", O_WRONLY);
		if (fd >= 0) {
			dup2(fd, 2);
			close(fd);
		}
		alarm(20);
		f();
		_exit(0);
	}
	int st = 0;
	if (pid < 0 || waitpid(pid, &st, 0) < 0)
		return 0;
	return st;
}

static void jansson_probe(Ctx &ctx)
{
	// a number token of exactly 15 characters: the character after it is the 16th the lexer saves, the one that makes
	// its 16-byte token buffer grow
	static const char *payloads[] = {"{\"n\":123456789012345}", "{\"iat\":1700000000.1234,\"z\":0}"};
	ctx.nontrivial = true;
	for (const char *pay : payloads) {
		std::string tok;
		ref_make_token("{\"alg\":\"none\"}", pay, NULL, NULL, tok);
		int via_libjwt = 0, alone = 0;
		std::string how;
		for (int64_t k = 1; k <= 80; k++) {
			int st = run_in_fork([&]() {
				jwt_checker_t *c = jwt_checker_new();
				if (!c)
					return;
				jwt_checker_time_leeway(c, JWT_CLAIM_EXP, -1);
				jwt_checker_time_leeway(c, JWT_CLAIM_NBF, -1);
				Armed a(k);
				jwt_checker_verify(c, tok.c_str());
			});
			ctx.count("oom:parser_probe_children");
			if (!(WIFEXITED(st) && WEXITSTATUS(st) == 0)) {
				via_libjwt++;
				if (how.empty())
					how = WIFSIGNALED(st) ? strf("signal %d at request %lld", WTERMSIG(st), (long long)k) : strf("exit status %d at request %lld", WEXITSTATUS(st), (long long)k);
			}
		}
		for (int64_t k = 1; k <= 40; k++) {
			int st = run_in_fork([&]() {
				Armed a(k);
				json_t *j = json_loads(pay, 0, NULL);
				if (j)
					json_decref(j);
			});
			ctx.count("oom:parser_probe_children");
			if (!(WIFEXITED(st) && WEXITSTATUS(st) == 0))
				alone++;
		}
		// (only what is stable goes into the event log: where exactly a corrupted heap gives way is not)
		ctx.logf("PROBE payload=%s: a single failing request kills jwt_checker_verify: %d; kills json_loads alone: %d", pay, via_libjwt > 0, alone > 0);
		ctx.sig(strf("C17|probe|%d|%d", via_libjwt > 0, alone > 0));
		if (via_libjwt && alone) {
			ctx.count("probe:jansson_alone_dies_under_oom_on_long_number_token");
			ctx.violation("C17", "jansson-parse-crashes-under-oom", "verify",
				      strf("jwt_checker_verify of an unsigned token with payload %s dies for %d of the 80 single failing requests tried (first: %s); json_loads of that payload alone, under the same "
					   "allocator, dies for %d of 40",
					   pay, via_libjwt, how.c_str(), alone));
		} else if (via_libjwt)
			ctx.violation("C17", "crash-under-oom", "verify:not-reproduced-with-jansson-alone",
				      strf("jwt_checker_verify of an unsigned token with payload %s dies for %d single failing requests (first: %s) and jansson alone does not", pay, via_libjwt, how.c_str()));
	}
}

static void oom_exec(Ctx &ctx)
{
	const Plan &plan = *ctx.plan;
	if (plan.C("parser_probe")) {
		jansson_probe(ctx);
		return;
	}
	Scenario sc;
	sc.plan = &plan;
	sc.prov = (int)plan.C("prov");
	bool fail_from = plan.C("from") != 0;
	g_pair_delta = plan.C("pair");
	prepare_keys(plan, sc.keys, sc.docs);
	set_provider(sc.prov);
	ctx.nontrivial = true;
	size_t nops = plan.steps.size();

	// 1. fault-free run
	std::vector<OpRes> base(nops);
	{
		OomState st;
		for (size_t j = 0; j < nops; j++)
			base[j] = run_op(sc, st, plan.steps[j], 0, false);
		teardown(st);
	}
	uint64_t total = 0;
	for (size_t j = 0; j < nops; j++) {
		total += base[j].reqs;
		ctx.logf("BASE op%zu %s reqs=%llu -> %s", j, plan.steps[j].op.c_str(), (unsigned long long)base[j].reqs, show(base[j].res, 200).c_str());
	}
	if (g_alloc.live_blocks())
		ctx.violation("C17", "leak-fault-free", "scenario", strf("%llu blocks live after the fault-free scenario", (unsigned long long)g_alloc.live_blocks()));
	ctx.count("oom:scenarios");
	ctx.count("oom:allocator_requests_in_fault_free_runs", total);

	// 2. every request index of every op fails once
	for (size_t j = 0; j < nops; j++) {
		for (uint64_t k = 1; k <= base[j].reqs; k++) {
			g_alloc.reset_run();
			set_provider(sc.prov);
			OomState st;
			bool stop = false;
			ParseRecord fparse;
			DumpRecord fdump;
			ctx.cur_step = (int)j;
			for (size_t i = 0; i < nops && !stop; i++) {
				bool faulted = i == j;
				OpRes rr = run_op(sc, st, plan.steps[i], faulted ? (int64_t)k : 0, faulted && fail_from);
				const std::string &opn = plan.steps[i].op;
				if (i < j) {
					if (rr.res != base[i].res) {
						ctx.violation("C17", "harness-nondeterminism", opn, strf("op%zu gave %s in the fault-free run and %s in a re-run before any fault", i, show(base[i].res, 200).c_str(), show(rr.res, 200).c_str()));
						stop = true;
					}
					continue;
				}
				if (faulted) {
					fparse = rr.parse;
					fdump = rr.dump;
					if (!rr.fired) {
						ctx.count("oom:fault_index_not_reached");
					} else {
						ctx.count("fault:alloc_fail:" + opn);
						if (rr.parse.valid)
							ctx.count("probe:allocation_failure_inside_jansson_parse");
					}
				}
				if (rr.lost_earlier) {
					ctx.violation("C17", "load-destroys-keys-already-in-the-set", opn,
						      strf("scenario op%zu %s (a second document loaded into a set that already holds keys) with allocator request %llu returning NULL: items that were in the "
							   "set before the call are gone or replaced afterwards (result '%s'); builders and checkers may hold pointers to them",
							   i, opn.c_str(), (unsigned long long)k, show(rr.res, 300).c_str()));
					stop = true;
					continue;
				}
				if (rr.res == base[i].res) {
					if (faulted && rr.fired)
						ctx.count("oom:same_result_despite_fault");
					continue;
				}
				// result differs from the fault-free run
				// a failure reported through the documented channel; for loads (whose fault-free result may
				// already contain flagged items) it has to be more failure than the fault-free run shows
				bool cumulative = opn == "LOADKEY" || opn == "RING";
				bool reported = cumulative ? rr.failmeasure > base[i].failmeasure : (rr.failmeasure > 0 && !rr.accepted && !rr.token);
				std::string outcome;
				if (base[i].failmeasure > 0 && rr.accepted && !base[i].accepted)
					outcome = "accepts-what-fault-free-rejects";
				else if (rr.token && base[i].token)
					outcome = "token-content-differs";
				else if (!reported)
					outcome = "silently-different-result";
				if (!faulted)
					outcome = "later-op-differs-after-survived-fault:" + (outcome.empty() ? std::string("reported-failure") : outcome);
				if (!outcome.empty()) {
					// the failed request of the faulted op may explain a difference that only shows later
					const ParseRecord &pr = fparse;
					bool jans = pr.valid && jansson_alone_reproduces(pr);
					bool jansd = !jans && fdump.valid && jansson_alone_reproduces_dump(fdump);
					if (jans) {
						ctx.count("probe:jansson_alone_reproduces_dropped_byte");
						ctx.violation("C17", "jansson-parse-drops-byte-under-oom", plan.steps[j].op,
							      strf("op%zu %s with request %llu of op%zu %s failing inside %s: result %s instead of %s; jansson alone, given the same bytes and the same failing request, "
								   "returns a tree that differs from the fault-free tree",
								   i, opn.c_str(), (unsigned long long)k, j, plan.steps[j].op.c_str(), pr.entry.c_str(), show(rr.res, 300).c_str(), show(base[i].res, 300).c_str()));
					} else if (jansd) {
						ctx.count("probe:jansson_alone_reproduces_damaged_dump");
						ctx.violation("C17", "jansson-dump-drops-bytes-under-oom", plan.steps[j].op,
							      strf("op%zu %s with request %llu of op%zu %s failing inside json_dumps: result %s instead of %s; jansson alone, dumping the same value with the same "
								   "failing request, returns a text that differs from the fault-free dump",
								   i, opn.c_str(), (unsigned long long)k, j, plan.steps[j].op.c_str(), show(rr.res, 300).c_str(), show(base[i].res, 300).c_str()));
					} else
						ctx.violation("C17", outcome.substr(0, outcome.find(':')), opn + (faulted ? "" : "<-" + plan.steps[j].op),
							      strf("scenario op%zu %s with allocator request %llu of op%zu %s returning NULL%s: result '%s', fault-free '%s'", i, opn.c_str(), (unsigned long long)k, j,
								   plan.steps[j].op.c_str(), fail_from ? " (and every later one)" : "", show(rr.res, 300).c_str(), show(base[i].res, 300).c_str()));
					stop = true;
				} else if (faulted) {
					// first reported failure: the same op again without fault must not crash and the object stays usable
					ctx.count("oom:reported_failures");
					OpRes again = run_op(sc, st, plan.steps[i], 0, false);
					(void)again;
					stop = true;
				} else
					stop = true;
			}
			teardown(st);
			if (g_alloc.live_blocks()) {
				ctx.count("oom:runs_leaking_under_fault");
				ctx.count("oom:blocks_leaked_under_fault", g_alloc.live_blocks());
			}
			ctx.count("oom:faulted_executions");
			ctx.sig(strf("C17|%s|k%llu|p%d|%d|%lld", plan.steps[j].op.c_str(), (unsigned long long)k, sc.prov, (int)fail_from, (long long)g_pair_delta));
		}
	}
	g_alloc.reset_run();
	g_pair_delta = 0;
	set_provider(PROV_OPENSSL);
	sim_scratch_cleanup();
}

extern const Profile PROFILE_OOM = {"oom", oom_gen, oom_exec};
