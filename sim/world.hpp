// The shared simulated world (DESIGN section 3): key owners, issuers, verifiers, a message pool
// and an adversarial transport. Used by the checks of C01-C03, C05, C06, C08, C09, C12, C14.
#pragma once
#include "lib.hpp"

enum { PROV_OPENSSL = 0, PROV_GNUTLS = 1 };
const char *prov_name(int p);
void set_provider(int p);

// Is (alg, key) something the provider's libjwt path is able to do at all? Probed by calling
// GnuTLS directly at start-up, never by asking libjwt.
bool provider_supports(int prov, const AlgInfo &a, const KeyTruth &k);
void provider_probe();

// key/alg admission per the documented setkey table
// key_alg: JWT_ALG_NONE when the key has no alg attribute, JWT_ALG_INVAL for an unknown string
bool admissible(bool has_key, int key_alg, int explicit_alg);
// pinned algorithm: explicit if not none, else the key's; -1 when there is none / invalid
int pinned_alg(bool has_key, int key_alg, int explicit_alg);

// JSON tree generator for header/claim content (C05, C10)
json_t *gen_json_value(Rng &r, int depth);
json_t *gen_json_object(Rng &r, int depth, int max_members);
std::string gen_unicode_string(Rng &r, size_t max_len);

// token mutation (in-flight damage); returns a short description. `destroys` is set when the
// fault changes signed content or replaces/damages signature bits (C12 provenance).
struct MutCtx {
	Rng rng{1};
	const std::vector<std::string> *pool = nullptr;            // other tokens (splice)
	std::function<bool(const std::string &alg, int signer, const std::string &signing_input, std::string &sig)> resign;
	const KeyTruth *verifier_key = nullptr; // for ES re-framing
	std::string pin_name;                   // the algorithm the verifier pinned ("" when none): resign signer 8 labels the token with it
};
std::string apply_mutation(const Step &m, std::string &tok, MutCtx &mc, bool &destroys, bool &encoding_level);
Step gen_mutation(Rng &r, const std::string &bias);

// pure garbage / near-valid strings for C06
std::string gen_garbage(int kind, uint64_t seed, size_t len, const std::string &base);
extern const int N_GARBAGE_KINDS;

// callback context shared by checker and builder callbacks
struct CbCtx {
	int mode = 0; // 0 nothing, 1 key+alg, 2 key only, 3 alg only, 5 return error
	const jwk_item_t *key = nullptr;
	int alg = JWT_ALG_NONE; // kept as int: INVAL (15) is a legal enum value, nothing above it is used
	int calls = 0;
	bool passive = false; // this call: look, but leave the config as the library handed it over
	bool capture = false;
	std::string hdr_json, claims_json;
	int hdr_rc = -1, claims_rc = -1;
	std::vector<std::string> typed_mismatch; // typed getters vs. the whole-object JSON read
	int typed_reads = 0;
};
extern "C" int world_cb(jwt_t *jwt, jwt_config_t *config);
