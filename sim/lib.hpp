// Thin instrumented wrappers around libjwt calls shared by all profiles, plus the
// cross-cutting C14 monitor (return value <=> error flag <=> non-empty message).
#pragma once
#include "common.hpp"
#include "seams.hpp"
#include "ref.hpp"

// A key as libjwt imported it (always through JWK text) next to its ground truth.
struct LoadedKey {
	KeyRef truth;
	jwk_set_t *set = nullptr;
	const jwk_item_t *item = nullptr;
	bool priv = false;
	bool has_alg = false;
	std::string alg_attr;   // as written in the JWK
	int alg_id = JWT_ALG_NONE; // what libjwt should report (INVAL for unknown strings)
	std::string jwk;
};

// Loads jwk text with jwks_create; returns false when the set or the first item is unusable.
// fail_at arms the allocator window for the jwks_create call; *fired / *tainted report whether a fault fired and
// whether it fired inside a jansson parse (jansson 2.14 may then hand back a damaged tree: see the known findings)
bool lib_load_key(Ctx &ctx, const std::string &jwk, LoadedKey &lk, int64_t fail_at = 0, bool fail_from = false, bool *fired = nullptr, bool *tainted = nullptr);
void lib_free_key(LoadedKey &lk);

// jwt_checker_verify + C14 monitor. fail_at arms the allocator window.
struct VerifyOut {
	bool tainted = false; // an injected allocation failure fell inside a jansson parse or dump
	int ret = 0;
	int err = 0;
	std::string msg;
	uint64_t alloc_reqs = 0;
	uint64_t faults_fired = 0;
};
VerifyOut lib_verify(Ctx &ctx, jwt_checker_t *c, const char *token, bool c14 = true, int64_t fail_at = 0,
		     bool fail_from = false, int64_t fail_at2 = 0);

struct GenerateOut {
	bool tainted = false; // an injected allocation failure fell inside a jansson parse or dump
	bool ok = false;
	std::string token;
	int err = 0;
	std::string msg;
	uint64_t alloc_reqs = 0;
	uint64_t faults_fired = 0;
};
GenerateOut lib_generate(Ctx &ctx, jwt_builder_t *b, bool c14 = true, int64_t fail_at = 0, bool fail_from = false, int64_t fail_at2 = 0);

// Reference token construction (independent of libjwt): header/payload JSON text -> token.
// alg NULL or FAM_NONE: unsigned ("h.p."). Returns false if the key cannot sign with alg.
bool ref_make_token(const std::string &header_json, const std::string &payload_json, const KeyTruth *key,
		    const AlgInfo *alg, std::string &token);

// error-message class: message with digits and quoted/bracketed payloads blanked
std::string msg_class(const std::string &m);

// After all objects of a run were freed: every block the simulator's allocator handed to
// libjwt/jansson must have come back. Reported under `prop`.
void monitor_no_leak(Ctx &ctx, const char *prop, const char *where);

// jwt_value_t helpers
const char *verr_name(int e);

// C++-safe equivalents of the jwt_set_GET_*/jwt_set_SET_* macros (the macros assign int to enum)
static inline void jv_get(jwt_value_t *v, jwt_value_type_t t, const char *name)
{
	memset(v, 0, sizeof *v);
	v->type = t;
	v->name = name;
	v->error = JWT_VALUE_ERR_NONE;
}
static inline void jv_set_int(jwt_value_t *v, const char *name, long x, int replace = 0)
{
	jv_get(v, JWT_VALUE_INT, name);
	v->int_val = x;
	v->replace = replace;
}
static inline void jv_set_str(jwt_value_t *v, const char *name, const char *x, int replace = 0)
{
	jv_get(v, JWT_VALUE_STR, name);
	v->str_val = x;
	v->replace = replace;
}
static inline void jv_set_bool(jwt_value_t *v, const char *name, int x, int replace = 0)
{
	jv_get(v, JWT_VALUE_BOOL, name);
	v->bool_val = x;
	v->replace = replace;
}
static inline void jv_set_json(jwt_value_t *v, const char *name, const char *x, int replace = 0)
{
	jv_get(v, JWT_VALUE_JSON, name);
	v->json_val = (char *)x;
	v->replace = replace;
}
